import DaliVerif.Model.MemSeq
import DaliVerif.Spec.MemUnit
import DaliVerif.Proofs.DevSeqProg
namespace DaliVerif.DevMem
open Prog

namespace MemUnit

/-- the unit listens to commands of kind `dev` for short address `a` -/
def Listens (u : MemUnit) (dev : Bool) (a : Nat) : Prop := u.dev = dev ∧ u.addr = a

theorem step_dtr0 (u : MemUnit) (dev : Bool) (v : Nat) (h : u.dev = dev) :
    u.step (.dtr0 dev v) = (.none, { u with dtr0 := v, clock := u.clock + 1 }) := by
  simp [step, exec, h]

theorem step_dtr1 (u : MemUnit) (dev : Bool) (v : Nat) (h : u.dev = dev) :
    u.step (.dtr1 dev v) = (.none, { u with dtr1 := v, clock := u.clock + 1 }) := by
  simp [step, exec, h]

theorem step_enable (u : MemUnit) (dev : Bool) (a : Nat) (h : u.Listens dev a) :
    u.step (.enableWriteMemory dev a) = (.none, { u with we := true, clock := u.clock + 1 }) := by
  simp [step, exec, h.1, h.2]

theorem step_read (u : MemUnit) (dev : Bool) (a : Nat) (h : u.Listens dev a)
    (hb : u.dtr1 = u.bank.number) :
    u.step (.readMemoryLocation dev a) =
      (respOf (u.bank.cellAt u.clock u.dtr0),
        { u with we := false, dtr0 := u.incDtr0, clock := u.clock + 1 }) := by
  simp [step, exec, h.1, h.2, hb]

theorem step_read_absent (u : MemUnit) (dev : Bool) (a : Nat) (h : u.Listens dev a)
    (hb : u.dtr1 ≠ u.bank.number) :
    u.step (.readMemoryLocation dev a) = (.none, { u with we := false, clock := u.clock + 1 }) := by
  simp [step, exec, h.1, h.2, hb]

theorem incDtr0_eq (u : MemUnit) (hadv : u.advance = true) (h : u.dtr0 ≤ 255) :
    u.incDtr0 = min (u.dtr0 + 1) 255 := by
  unfold incDtr0
  simp only [hadv, Bool.true_and]
  by_cases h' : u.dtr0 < 255
  · simp [h']; omega
  · simp [h']; omega

end MemUnit

theorem Bank.cellAt_stable (b : Bank) (hs : b.Stable) (t a : Nat) : b.cellAt t a = b.cellAt 0 a := by
  unfold Bank.cellAt; rw [hs t a]

/-- key lemma: the local `dtr0` of `read_raw` tracks the unit's DTR0, for any
location order; the bytes are the cells; the bank is not touched -/
theorem readLoop_run (dev : Bool) (a : Nat) :
    ∀ (locs : List Nat) (u : MemUnit) (d : Option Nat) (acc : List Nat),
      u.Listens dev a → u.advance = true → u.dtr1 = u.bank.number → u.bank.Stable →
      (∀ l ∈ locs, l ≤ 255) → (∀ x, d = some x → u.dtr0 = x) →
      ((readLoop dev a locs d acc).run MemUnit.step u).1 =
        readOutcome ((u.bank.readCells 0 locs).map (acc ++ ·)) ∧
      ((readLoop dev a locs d acc).run MemUnit.step u).2.bank = u.bank := by
  intro locs
  induction locs with
  | nil => intro u d acc _ _ _ _ _ _; simp [readLoop, Bank.readCells, readOutcome]
  | cons l ls ih =>
    intro u d acc hl hadv hb hst hlocs hd
    have hl255 : l ≤ 255 := hlocs l (by simp)
    have hls : ∀ x ∈ ls, x ≤ 255 := fun x hx => hlocs x (by simp [hx])
    -- the unit right before the read: DTR0 = l
    have body : ∀ (u : MemUnit), u.Listens dev a → u.advance = true → u.dtr1 = u.bank.number →
        u.bank.Stable → u.dtr0 = l →
        ((Prog.send (.readMemoryLocation dev a) fun r =>
            match r with
            | .none => Prog.fail .MemoryLocationNotImplemented
            | .err => Prog.fail .ResponseError
            | .byte b => readLoop dev a ls (some (min (l + 1) 255)) (acc ++ [b])).run MemUnit.step u).1 =
          readOutcome ((u.bank.readCells 0 (l :: ls)).map (acc ++ ·)) ∧
        ((Prog.send (.readMemoryLocation dev a) fun r =>
            match r with
            | .none => Prog.fail .MemoryLocationNotImplemented
            | .err => Prog.fail .ResponseError
            | .byte b => readLoop dev a ls (some (min (l + 1) 255)) (acc ++ [b])).run MemUnit.step u).2.bank
          = u.bank := by
      intro u hl hadv hb hst h0
      simp only [run_send, MemUnit.step_read u dev a hl hb]
      rw [Bank.cellAt_stable _ hst, h0]
      simp only [Bank.readCells]
      cases hc : u.bank.cellAt 0 l with
      | none => simp [respOf, readOutcome]
      | some x =>
        simp only [respOf]
        have := ih { u with we := false, dtr0 := u.incDtr0, clock := u.clock + 1 }
          (some (min (l + 1) 255)) (acc ++ [x]) hl hadv hb hst hls
          (by intro y hy; cases hy; simp [MemUnit.incDtr0_eq u hadv (by omega), h0])
        obtain ⟨h1, h2⟩ := this
        constructor
        · rw [h1]
          cases u.bank.readCells 0 ls <;> simp [readOutcome]
        · rw [h2]
    unfold readLoop
    by_cases hdl : d = some l
    · simp only [hdl, if_true]
      exact body u hl hadv hb hst (hd l hdl)
    · simp only [hdl, if_false, run_send, MemUnit.step_dtr0 u dev l hl.1]
      exact body _ hl hadv hb hst rfl



theorem Bank.readCells_isSome (b : Bank) (t : Nat) (locs : List Nat) :
    (b.readCells t locs).isSome = true ↔ ∀ l ∈ locs, b.readable l = true := by
  induction locs with
  | nil => simp [Bank.readCells]
  | cons l ls ih =>
    simp only [Bank.readCells, Bank.cellAt, List.mem_cons, forall_eq_or_imp]
    by_cases h : b.readable l = true
    · simp only [h, if_true, true_and]
      rw [← ih]; cases b.readCells t ls <;> simp
    · simp [h]

theorem Bank.readCells_eq_map (b : Bank) (t : Nat) (locs : List Nat)
    (h : ∀ l ∈ locs, b.readable l = true) : b.readCells t locs = some (locs.map (b.content t)) := by
  induction locs with
  | nil => rfl
  | cons l ls ih =>
    have hl := h l (by simp)
    have := ih (fun x hx => h x (by simp [hx]))
    simp [Bank.readCells, Bank.cellAt, hl, this]

/-- `read_raw` against a conforming unit that implements the bank, whatever its
registers held before -/
theorem readRaw_run (u : MemUnit) (dev : Bool) (a bank : Nat) (locs : List Nat)
    (hl : u.Listens dev a) (hadv : u.advance = true) (hb : u.bank.number = bank) (hst : u.bank.Stable)
    (hlocs : ∀ l ∈ locs, l ≤ 255) :
    ((readRaw (if dev then .devShort a else .gearShort a) bank locs).run MemUnit.step u).1 =
      readOutcome (u.bank.readCells 0 locs) ∧
    ((readRaw (if dev then .devShort a else .gearShort a) bank locs).run MemUnit.step u).2.bank = u.bank := by
  have hres : resolveAddr (if dev then .devShort a else .gearShort a) = .ok (dev, a) := by
    cases dev <;> rfl
  unfold readRaw
  rw [hres]
  simp only [run_send, MemUnit.step_dtr1 u dev bank hl.1]
  have := readLoop_run dev a locs { u with dtr1 := bank, clock := u.clock + 1 } none [] hl hadv
    hb.symm hst hlocs (by intro x hx; cases hx)
  obtain ⟨h1, h2⟩ := this
  constructor
  · rw [h1]; cases u.bank.readCells 0 locs <;> simp [readOutcome]
  · rw [h2]

/-- nobody implements that bank: every read is silent -/
theorem readLoop_absent (dev : Bool) (a : Nat) :
    ∀ (locs : List Nat) (u : MemUnit) (d : Option Nat) (acc : List Nat),
      u.Listens dev a → u.dtr1 ≠ u.bank.number → locs ≠ [] →
      ((readLoop dev a locs d acc).run MemUnit.step u).1 = .error .MemoryLocationNotImplemented ∧
      ((readLoop dev a locs d acc).run MemUnit.step u).2.bank = u.bank := by
  intro locs u d acc hl hb hne
  cases locs with
  | nil => exact absurd rfl hne
  | cons l ls =>
    unfold readLoop
    by_cases hdl : d = some l
    · simp [hdl, MemUnit.step_read_absent u dev a hl hb]
    · simp only [hdl, if_false, run_send, MemUnit.step_dtr0 u dev l hl.1]
      have := MemUnit.step_read_absent { u with dtr0 := l, clock := u.clock + 1 } dev a hl hb
      rw [this]
      simp

theorem readRaw_run_absent (u : MemUnit) (dev : Bool) (a bank : Nat) (locs : List Nat)
    (hl : u.Listens dev a) (hb : u.bank.number ≠ bank) (hne : locs ≠ []) :
    ((readRaw (if dev then .devShort a else .gearShort a) bank locs).run MemUnit.step u).1 =
      .error .MemoryLocationNotImplemented ∧
    ((readRaw (if dev then .devShort a else .gearShort a) bank locs).run MemUnit.step u).2.bank = u.bank := by
  have hres : resolveAddr (if dev then .devShort a else .gearShort a) = .ok (dev, a) := by
    cases dev <;> rfl
  unfold readRaw
  rw [hres]
  simp only [run_send, MemUnit.step_dtr1 u dev bank hl.1]
  have := readLoop_absent dev a locs { u with dtr1 := bank, clock := u.clock + 1 } none [] hl
    (by simpa using fun h => hb h.symm) hne
  simpa using this

/-- answers to READ MEMORY LOCATION in an exchange -/
def readAnswers (tr : List (Cmd × Resp)) : List Resp :=
  tr.filterMap fun cr => match cr.1 with | .readMemoryLocation .. => some cr.2 | _ => none

theorem readLoop_faults (dev : Bool) (a : Nat) :
    ∀ (locs : List Nat) (d : Option Nat) (acc : List Nat) (tr : List (Cmd × Resp)) (out : PyRes (List Nat)),
      Out (readLoop dev a locs d acc) tr out →
        (∃ bs, out = .ok (acc ++ bs) ∧ readAnswers tr = bs.map .byte ∧ bs.length = locs.length) ∨
        (∃ bs : List Nat, out = .error .MemoryLocationNotImplemented ∧ readAnswers tr = bs.map .byte ++ [.none]) ∨
        (∃ bs : List Nat, out = .error .ResponseError ∧ readAnswers tr = bs.map .byte ++ [.err]) := by
  intro locs
  induction locs with
  | nil =>
    intro d acc tr out h
    simp [readLoop] at h
    left; exact ⟨[], by simp [h.2], by simp [h.1, readAnswers], rfl⟩
  | cons l ls ih =>
    intro d acc tr out h
    have body : ∀ tr, Out (Prog.send (.readMemoryLocation dev a) fun r =>
            match r with
            | .none => Prog.fail .MemoryLocationNotImplemented
            | .err => Prog.fail .ResponseError
            | .byte b => readLoop dev a ls (some (min (l + 1) 255)) (acc ++ [b])) tr out →
        (∃ bs, out = .ok (acc ++ bs) ∧ readAnswers tr = bs.map .byte ∧ bs.length = (l :: ls).length) ∨
        (∃ bs : List Nat, out = .error .MemoryLocationNotImplemented ∧ readAnswers tr = bs.map .byte ++ [.none]) ∨
        (∃ bs : List Nat, out = .error .ResponseError ∧ readAnswers tr = bs.map .byte ++ [.err]) := by
      intro tr h
      simp only [out_send] at h
      obtain ⟨r, tr', rfl, h⟩ := h
      cases r with
      | none => simp at h; right; left; exact ⟨[], h.2, by simp [readAnswers, h.1]⟩
      | err => simp at h; right; right; exact ⟨[], h.2, by simp [readAnswers, h.1]⟩
      | byte b =>
        simp only at h
        rcases ih _ _ _ _ h with ⟨bs, h1, h2, h3⟩ | ⟨bs, h1, h2⟩ | ⟨bs, h1, h2⟩
        · left; exact ⟨b :: bs, by simp [h1], by simp [readAnswers] at h2 ⊢; exact h2, by simp [h3]⟩
        · right; left; exact ⟨b :: bs, h1, by simp [readAnswers] at h2 ⊢; exact h2⟩
        · right; right; exact ⟨b :: bs, h1, by simp [readAnswers] at h2 ⊢; exact h2⟩
    unfold readLoop at h
    by_cases hdl : d = some l
    · simp only [hdl, if_true] at h; exact body tr h
    · simp only [hdl, if_false] at h
      rw [out_send] at h
      obtain ⟨r, tr', rfl, h⟩ := h
      have := body tr' h
      simpa [readAnswers] using this




/-- the sequential reads of `read_all`: cell by cell what the unit holds at the
moment of each read, DTR0 auto-increment, memory untouched -/
theorem readAllLoop_run (dev : Bool) (a : Nat) :
    ∀ (n : Nat) (u : MemUnit) (acc : List (Option Nat)),
      u.Listens dev a → u.advance = true → u.dtr1 = u.bank.number → u.dtr0 ≤ 255 → u.dtr0 + n ≤ 256 →
      (readAllLoop dev a n acc).run MemUnit.step u =
        (.ok (acc ++ (List.range n).map (fun j => u.bank.cellAt (u.clock + j) (u.dtr0 + j)), false),
          { u with clock := u.clock + n, dtr0 := min (u.dtr0 + n) 255,
                   we := if n = 0 then u.we else false }) := by
  intro n
  induction n with
  | zero =>
    intro u acc _ _ _ hd h
    simp only [readAllLoop, run_done, List.range_zero, List.map_nil, List.append_nil, Nat.add_zero, if_true]
    have : min u.dtr0 255 = u.dtr0 := by omega
    rw [this]
  | succ n ih =>
    intro u acc hl hadv hb hd hn
    simp only [readAllLoop, run_send, MemUnit.step_read u dev a hl hb]
    have hinc : u.incDtr0 = min (u.dtr0 + 1) 255 := MemUnit.incDtr0_eq u hadv hd
    have key : ∀ (o : Option Nat), o = u.bank.cellAt u.clock u.dtr0 →
        (readAllLoop dev a n (acc ++ [o])).run MemUnit.step
            { u with we := false, dtr0 := u.incDtr0, clock := u.clock + 1 } =
          (.ok (acc ++ (List.range (n + 1)).map (fun j => u.bank.cellAt (u.clock + j) (u.dtr0 + j)), false),
            { u with clock := u.clock + (n + 1), dtr0 := min (u.dtr0 + (n + 1)) 255,
                     we := if n + 1 = 0 then u.we else false }) := by
      intro o ho
      rw [ih { u with we := false, dtr0 := u.incDtr0, clock := u.clock + 1 } (acc ++ [o]) hl hadv hb
        (by simp only [hinc]; omega) (by simp only [hinc]; omega)]
      simp only [hinc]
      have hlist : acc ++ [o] ++ (List.range n).map (fun j =>
            u.bank.cellAt (u.clock + 1 + j) (min (u.dtr0 + 1) 255 + j)) =
          acc ++ (List.range (n + 1)).map (fun j => u.bank.cellAt (u.clock + j) (u.dtr0 + j)) := by
        rw [List.range_succ_eq_map, List.map_cons, List.map_map, List.append_assoc]
        congr 1
        simp only [List.singleton_append, Nat.add_zero, ho]
        congr 1
        apply List.map_congr_left
        intro j hj
        have hj' : j < n := List.mem_range.mp hj
        have : min (u.dtr0 + 1) 255 = u.dtr0 + 1 := by omega
        simp only [Function.comp, this]
        have e1 : u.clock + 1 + j = u.clock + j.succ := by omega
        have e2 : u.dtr0 + 1 + j = u.dtr0 + j.succ := by omega
        rw [e1, e2]
      rw [hlist]
      have e1 : u.clock + 1 + n = u.clock + (n + 1) := by omega
      have e2 : min (min (u.dtr0 + 1) 255 + n) 255 = min (u.dtr0 + (n + 1)) 255 := by omega
      simp only [e1, e2, Nat.succ_ne_zero, if_false]
      congr 2
      split <;> rfl
    cases hc : u.bank.cellAt u.clock u.dtr0 with
    | none => simp only [respOf]; exact key none hc.symm
    | some x => simp only [respOf]; exact key (some x) hc.symm




theorem bind_send {α β} (c : Cmd) (k : Resp → Prog α) (f : α → Prog β) :
    (Prog.send c k).bind f = .send c (fun r => (k r).bind f) := rfl
theorem bind_done {α β} (x : α) (f : α → Prog β) : (Prog.done x).bind f = f x := rfl
theorem bind_fail {α β} (e : PyErr) (f : α → Prog β) : (Prog.fail e : Prog α).bind f = .fail e := rfl

theorem resolve_short (dev : Bool) (a : Nat) :
    resolveAddr (if dev then .devShort a else .gearShort a) = .ok (dev, a) := by cases dev <;> rfl

namespace MemUnit
theorem step_writeNR (u : MemUnit) (dev : Bool) (v : Nat) (h : u.dev = dev) :
    u.step (.writeMemoryLocationNoReply dev v) =
      ((u.writeCell v false).1, { (u.writeCell v false).2 with clock := u.clock + 1 }) := by
  simp [step, exec, h]
end MemUnit

/-- the reads and the un-latch, from a unit whose DTR0 is at `start` -/
theorem readAllTail_run (u : MemUnit) (dev : Bool) (a : Nat) (latch : Bool) (start : Nat)
    (hl : u.Listens dev a) (hadv : u.advance = true) (hb : u.dtr1 = u.bank.number)
    (hd : u.dtr0 = start) (hs : start ≤ 255) (hlast : u.bank.last ≤ 255) :
    (readAllTail dev a latch start u.bank.last).run MemUnit.step u =
      (.ok (List.replicate start none ++
          (List.range (u.bank.last + 1 - start)).map (fun j => u.bank.cellAt (u.clock + j) (start + j))),
        if latch then
          { u with clock := u.clock + (u.bank.last + 1 - start) + 3, dtr0 := (if 2 ≤ u.bank.last ∧ (u.bank.hasLock || u.bank.hasLatch) then 3 else 3),
                   we := true,
                   bank := if u.bank.canWrite u.unlockValue 2 then u.bank.store (u.clock + (u.bank.last + 1 - start) + 2) 2 0xFF else u.bank }
        else
          { u with clock := u.clock + (u.bank.last + 1 - start),
                   dtr0 := min (start + (u.bank.last + 1 - start)) 255,
                   we := if u.bank.last + 1 - start = 0 then u.we else false }) := by
  unfold readAllTail
  rw [run_bind, readAllLoop_run dev a _ u _ hl hadv hb (by omega) (by omega)]
  subst hd
  cases latch
  · simp
  · have hdev := hl.1
    have haddr := hl.2
    simp only [if_true, run_send, run_done]
    by_cases hc : u.bank.canWrite u.unlockValue 2 = true
    · simp [MemUnit.step, MemUnit.exec, MemUnit.writeCell, MemUnit.incDtr0, hdev, haddr, hb, hadv, hc]
    · simp [MemUnit.step, MemUnit.exec, MemUnit.writeCell, MemUnit.incDtr0, hdev, haddr, hb, hadv, hc]




/-- the unit as `read_all` leaves it before the reads start -/
def MemUnit.afterLatch (u : MemUnit) (bank : Nat) (latch : Bool) : MemUnit :=
  let start := if bank = 0 then 2 else 3
  if latch then
    { u with clock := u.clock + 3 + (if 3 ≠ start then 1 else 0), dtr0 := start, we := true,
             bank := if u.bank.canWrite u.unlockValue 2 then u.bank.store (u.clock + 2) 2 0xAA else u.bank }
  else { u with clock := u.clock + 1, dtr0 := start }

theorem readAllFrom_run (u : MemUnit) (dev : Bool) (a bank : Nat) (latch : Bool) (last : Nat)
    (hl : u.Listens dev a) (hadv : u.advance = true) (hb : u.dtr1 = u.bank.number) :
    (readAllFrom dev a bank latch last).run MemUnit.step u =
      (readAllTail dev a latch (if bank = 0 then 2 else 3) last).run MemUnit.step (u.afterLatch bank latch) := by
  have hdev := hl.1
  have haddr := hl.2
  unfold readAllFrom MemUnit.afterLatch
  cases latch
  · by_cases h0 : bank = 0
    · simp [h0, MemUnit.step, MemUnit.exec, hdev]
    · simp [h0, MemUnit.step, MemUnit.exec, hdev]
  · by_cases hc : u.bank.canWrite u.unlockValue 2 = true
    · by_cases h0 : bank = 0
      · simp [h0, MemUnit.step, MemUnit.exec, MemUnit.writeCell, MemUnit.incDtr0, hdev, haddr, hb, hadv, hc]
      · simp [h0, MemUnit.step, MemUnit.exec, MemUnit.writeCell, MemUnit.incDtr0, hdev, haddr, hb, hadv, hc]
    · by_cases h0 : bank = 0
      · simp [h0, MemUnit.step, MemUnit.exec, MemUnit.writeCell, MemUnit.incDtr0, hdev, haddr, hb, hadv, hc]
      · simp [h0, MemUnit.step, MemUnit.exec, MemUnit.writeCell, MemUnit.incDtr0, hdev, haddr, hb, hadv, hc]

/-- `LastAddress.read` and hand-over to the rest -/
theorem readAllBody_run (u : MemUnit) (dev : Bool) (a bank : Nat) (hasLatch useLatch : Bool)
    (hl : u.Listens dev a) (hadv : u.advance = true) (hb : u.bank.number = bank) :
    (readAllBody dev a bank hasLatch useLatch).run MemUnit.step u =
      (readAllFrom dev a bank (useLatch && hasLatch) u.bank.last).run MemUnit.step
        { u with clock := u.clock + 3, dtr0 := 1, dtr1 := bank, we := false } := by
  have hdev := hl.1
  have haddr := hl.2
  have h0 : ∀ t, u.bank.cellAt t 0 = some u.bank.last := by
    intro t; simp [Bank.cellAt, Bank.readable, Bank.implemented, Bank.content]
  unfold readAllBody readRaw
  rw [resolve_short]
  simp [readLoop, bind_send, bind_done, MemUnit.step, MemUnit.exec, MemUnit.incDtr0, hdev, haddr, hb, hadv,
    h0, respOf]




theorem Bank.store_last (b : Bank) (t a v : Nat) : (b.store t a v).last = b.last := by
  unfold Bank.store; split <;> rfl
theorem Bank.store_number (b : Bank) (t a v : Nat) : (b.store t a v).number = b.number := by
  unfold Bank.store; split <;> rfl

theorem afterLatch_listens (w : MemUnit) (bank : Nat) (latch : Bool) {dev : Bool} {a : Nat}
    (h : w.Listens dev a) : (w.afterLatch bank latch).Listens dev a := by
  unfold MemUnit.afterLatch; cases latch <;> exact h

theorem afterLatch_fields (w : MemUnit) (bank : Nat) (latch : Bool) :
    (w.afterLatch bank latch).advance = w.advance ∧
    (w.afterLatch bank latch).unlockValue = w.unlockValue ∧
    (w.afterLatch bank latch).dtr0 = (if bank = 0 then 2 else 3) ∧
    (w.afterLatch bank latch).bank.last = w.bank.last ∧
    (w.afterLatch bank latch).dtr1 = w.dtr1 ∧
    (w.afterLatch bank latch).bank.number = w.bank.number := by
  unfold MemUnit.afterLatch
  cases latch
  · simp
  · simp only [if_true]
    refine ⟨trivial, trivial, trivial, ?_, trivial, ?_⟩
    · split
      · exact Bank.store_last _ _ _ _
      · rfl
    · split
      · exact Bank.store_number _ _ _ _
      · rfl

/-- everything `read_all` does to a conforming unit that implements the bank, in one equation -/
theorem readAll_run (u : MemUnit) (dev : Bool) (a bank : Nat) (hasLatch useLatch : Bool)
    (hl : u.Listens dev a) (hadv : u.advance = true) (hb : u.bank.number = bank)
    (hlast : u.bank.last ≤ 255) :
    let latch := useLatch && hasLatch
    let start := if bank = 0 then 2 else 3
    let u1 : MemUnit := { u with clock := u.clock + 3, dtr0 := 1, dtr1 := bank, we := false }
    let u2 := u1.afterLatch bank latch
    (readAll (if dev then .devShort a else .gearShort a) bank hasLatch useLatch).run MemUnit.step u =
      (.ok (List.replicate start none ++
          (List.range (u.bank.last + 1 - start)).map (fun j => u2.bank.cellAt (u2.clock + j) (start + j))),
        if latch then
          { u2 with clock := u2.clock + (u.bank.last + 1 - start) + 3, dtr0 := 3, we := true,
                    bank := if u2.bank.canWrite u.unlockValue 2 then
                      u2.bank.store (u2.clock + (u.bank.last + 1 - start) + 2) 2 0xFF else u2.bank }
        else
          { u2 with clock := u2.clock + (u.bank.last + 1 - start),
                    dtr0 := min (start + (u.bank.last + 1 - start)) 255,
                    we := if u.bank.last + 1 - start = 0 then u2.we else false }) := by
  intro latch start u1 u2
  have hl1 : u1.Listens dev a := hl
  have hb1 : u1.dtr1 = u1.bank.number := hb.symm
  have hl2 : u2.Listens dev a := afterLatch_listens u1 bank latch hl1
  have hadv2 : u2.advance = true := (afterLatch_fields u1 bank latch).1.trans hadv
  have hunl : u2.unlockValue = u.unlockValue := (afterLatch_fields u1 bank latch).2.1
  have hd2 : u2.dtr0 = start := (afterLatch_fields u1 bank latch).2.2.1
  have hlast2 : u2.bank.last = u.bank.last := (afterLatch_fields u1 bank latch).2.2.2.1
  have hb2 : u2.dtr1 = u2.bank.number := by
    rw [(afterLatch_fields u1 bank latch).2.2.2.2.1, (afterLatch_fields u1 bank latch).2.2.2.2.2]
    exact hb.symm
  have hstart : start ≤ 255 := by show (if bank = 0 then 2 else 3) ≤ 255; split <;> omega
  unfold readAll
  rw [resolve_short]
  simp only
  rw [readAllBody_run u dev a bank hasLatch useLatch hl hadv hb,
    readAllFrom_run u1 dev a bank latch u.bank.last hl1 hadv hb1]
  have := readAllTail_run u2 dev a latch start hl2 hadv2 hb2 hd2 hstart (by rw [hlast2]; exact hlast)
  rw [hlast2] at this
  rw [this, hunl]
  simp




/-- memory after writing the pairs (location, byte) in order -/
def writeAll : List (Nat × Nat) → (Nat → Nat) → (Nat → Nat)
  | [], m => m
  | p :: ps, m => writeAll ps (fun x => if x = p.1 then p.2 else m x)

/-- DTR0 after the loop -/
def finalDtr0 : List (Nat × Nat) → Nat → Nat
  | [], d => d
  | p :: ps, _ => finalDtr0 ps (min (p.1 + 1) 255)

def finalD : List (Nat × Nat) → Option Nat → Option Nat
  | [], d => d
  | p :: ps, _ => finalD ps (some (min (p.1 + 1) 255))

theorem canWrite_rw (b : Bank) (m : Nat → Nat) (unl a : Nat) :
    ({ b with rw := m } : Bank).canWrite unl a = b.canWrite unl a := rfl

/-- the write loop against a conforming, write-enabled unit: if every target
cell can be written the loop completes, the memory holds the bytes, DTR0 is
where the code thinks it is; otherwise `MemoryLocationNotWriteable` -/
theorem writeLoop_run (dev : Bool) :
    ∀ (pairs : List (Nat × Nat)) (u : MemUnit) (d : Option Nat),
      u.dev = dev → u.advance = true → u.we = true → u.dtr1 = u.bank.number →
      (∀ p ∈ pairs, p.1 ≤ 255) → (∀ p ∈ pairs, u.bank.isLockCell p.1 = false) →
      (∀ x, d = some x → u.dtr0 = x) →
      ((∀ p ∈ pairs, u.bank.canWrite u.unlockValue p.1 = true) →
        ∃ c, (writeLoop dev false pairs d).run MemUnit.step u =
          (.ok (finalD pairs d),
            { u with clock := c, dtr0 := finalDtr0 pairs u.dtr0,
                     bank := { u.bank with rw := writeAll pairs u.bank.rw } })) ∧
      (¬ (∀ p ∈ pairs, u.bank.canWrite u.unlockValue p.1 = true) →
        ((writeLoop dev false pairs d).run MemUnit.step u).1 = .error .MemoryLocationNotWriteable) := by
  intro pairs
  induction pairs with
  | nil =>
    intro u d _ _ _ _ _ _ _
    refine ⟨fun _ => ⟨u.clock, by simp [writeLoop, finalD, finalDtr0, writeAll]⟩, fun h => ?_⟩
    exact absurd (fun p hp => by cases hp) h
  | cons p ps ih =>
    intro u d hdev hadv hwe hb hlocs hnl hd
    obtain ⟨l, v⟩ := p
    have hl255 : l ≤ 255 := hlocs (l, v) (by simp)
    have hnl0 : u.bank.isLockCell l = false := hnl (l, v) (by simp)
    -- the state right before the write command: DTR0 = l
    have body : ∀ (w : MemUnit), w.dev = dev → w.advance = true → w.we = true → w.dtr1 = w.bank.number →
        w.bank = u.bank → w.unlockValue = u.unlockValue → w.dtr0 = l →
        ((∀ p ∈ (l, v) :: ps, u.bank.canWrite u.unlockValue p.1 = true) →
          ∃ c, (Prog.send (.writeMemoryLocation dev v) fun r =>
              match r with
              | .none => Prog.fail .MemoryLocationNotWriteable
              | .err => Prog.fail .ResponseError
              | .byte b => if b ≠ v then Prog.fail .ResponseError
                           else writeLoop dev false ps (some (min (l + 1) 255))).run MemUnit.step w =
            (.ok (finalD ((l, v) :: ps) d),
              { w with clock := c, dtr0 := finalDtr0 ((l, v) :: ps) w.dtr0,
                       bank := { u.bank with rw := writeAll ((l, v) :: ps) u.bank.rw } })) ∧
        (¬ (∀ p ∈ (l, v) :: ps, u.bank.canWrite u.unlockValue p.1 = true) →
          ((Prog.send (.writeMemoryLocation dev v) fun r =>
              match r with
              | .none => Prog.fail .MemoryLocationNotWriteable
              | .err => Prog.fail .ResponseError
              | .byte b => if b ≠ v then Prog.fail .ResponseError
                           else writeLoop dev false ps (some (min (l + 1) 255))).run MemUnit.step w).1
            = .error .MemoryLocationNotWriteable) := by
      intro w hwdev hwadv hwwe hwb hwbank hwunl hw0
      rw [← hwunl]
      by_cases hc : u.bank.canWrite w.unlockValue l = true
      · -- the cell is written, the echo is right
        have hstep : w.step (.writeMemoryLocation dev v) =
            (.byte v, { w with bank := { u.bank with rw := fun x => if x = l then v else u.bank.rw x },
                               dtr0 := min (l + 1) 255, clock := w.clock + 1 }) := by
          have hinc : w.incDtr0 = min (l + 1) 255 := by
            rw [MemUnit.incDtr0_eq w hwadv (by omega), hw0]
          simp [MemUnit.step, MemUnit.exec, MemUnit.writeCell, hwdev, hwwe, hwb, hwbank, hw0, hc,
            Bank.store, hnl0, hinc]
        simp only [run_send, hstep, ne_eq, not_true_eq_false, if_false]
        have := ih { w with bank := { u.bank with rw := fun x => if x = l then v else u.bank.rw x },
                            dtr0 := min (l + 1) 255, clock := w.clock + 1 }
          (some (min (l + 1) 255)) hwdev hwadv hwwe (by simpa [hwbank] using hwb)
          (fun p hp => hlocs p (by simp [hp])) (fun p hp => hnl p (by simp [hp]))
          (by intro x hx; cases hx; rfl)
        simp only [canWrite_rw] at this
        obtain ⟨ihA, ihB⟩ := this
        constructor
        · intro hall'
          have hall : ∀ p ∈ ps, u.bank.canWrite w.unlockValue p.1 = true :=
            fun p hp => hall' p (by simp [hp])
          obtain ⟨c, hrun⟩ := ihA hall
          exact ⟨c, by rw [hrun]; simp [finalD, finalDtr0, writeAll]⟩
        · intro hall'
          have hall : ¬ ∀ p ∈ ps, u.bank.canWrite w.unlockValue p.1 = true := by
            intro h; apply hall'
            intro p hp; simp at hp; rcases hp with rfl | hp
            · exact hc
            · exact h p hp
          exact ihB hall
      · constructor
        · intro h; exact absurd (h (l, v) (by simp)) hc
        · intro _
          simp [MemUnit.step, MemUnit.exec, MemUnit.writeCell, hwdev, hwwe, hwb, hwbank, hw0, hc]
    unfold writeLoop
    simp only [Bool.false_eq_true, if_false]
    by_cases hdl : d = some l
    · simp only [hdl, if_true]
      have := body u hdev hadv hwe hb rfl rfl (hd l hdl)
      rw [hdl] at this
      exact this
    · simp only [hdl, if_false, run_send, MemUnit.step_dtr0 u dev l hdev]
      exact body { u with dtr0 := l, clock := u.clock + 1 } hdev hadv hwe hb rfl rfl rfl




theorem finalD_some (pairs : List (Nat × Nat)) (x : Nat) : finalD pairs (some x) = some (finalDtr0 pairs x) := by
  induction pairs generalizing x with
  | nil => rfl
  | cons p ps ih => simp [finalD, finalDtr0, ih]

theorem finalD_cons (p : Nat × Nat) (ps : List (Nat × Nat)) (d : Option Nat) (x : Nat) :
    finalD (p :: ps) d = some (finalDtr0 (p :: ps) x) := by
  simp [finalD, finalDtr0, finalD_some]

/-- `write_raw` without unlocking, feedback checked, conforming unit, every target cell writable -/
theorem writeRaw_ok (u : MemUnit) (dev : Bool) (a bank : Nat) (locs : List (Nat × MemType)) (raw : List Nat)
    (allowShort : Bool) (hl : u.Listens dev a) (hadv : u.advance = true) (hb : u.bank.number = bank)
    (hchk : writeChecks locs raw.length allowShort false = .ok false)
    (hne : (locs.map (·.1)).zip raw ≠ [])
    (hlocs : ∀ p ∈ (locs.map (·.1)).zip raw, p.1 ≤ 255)
    (hnl : ∀ p ∈ (locs.map (·.1)).zip raw, u.bank.isLockCell p.1 = false)
    (hcw : ∀ p ∈ (locs.map (·.1)).zip raw, u.bank.canWrite u.unlockValue p.1 = true) :
    ∃ c, (writeRaw (if dev then .devShort a else .gearShort a) bank locs raw allowShort false false).run
        MemUnit.step u =
      (.ok (), { u with clock := c, dtr0 := finalDtr0 ((locs.map (·.1)).zip raw) u.dtr0, dtr1 := bank, we := true,
                        bank := { u.bank with rw := writeAll ((locs.map (·.1)).zip raw) u.bank.rw } }) := by
  have hdev := hl.1
  have haddr := hl.2
  generalize hp : (locs.map (·.1)).zip raw = pairs at *
  unfold writeRaw
  rw [resolve_short]
  simp only [hchk, hp, Bool.false_eq_true, if_false, run_send]
  have hu1 : ((u.step (.dtr1 dev bank)).2.step (.enableWriteMemory dev a)).2 =
      { u with dtr1 := bank, we := true, clock := u.clock + 2 } := by
    simp [MemUnit.step, MemUnit.exec, hdev, haddr]
  rw [hu1, run_bind]
  obtain ⟨c, hrun⟩ := (writeLoop_run dev pairs { u with dtr1 := bank, we := true, clock := u.clock + 2 } none
    hdev hadv rfl hb.symm hlocs hnl (by intro x hx; cases hx)).1 hcw
  rw [hrun]
  simp only [run_send]
  cases pairs with
  | nil => exact absurd rfl hne
  | cons p ps =>
    refine ⟨c + 1, ?_⟩
    simp [MemUnit.step, MemUnit.exec, hdev, haddr, finalD_cons p ps none u.dtr0, finalDtr0]




/-- the bank while it is unlocked by `write_raw` -/
def Bank.unlocked (b : Bank) : Bank := { b with lockByte := 0x55, snap := none }

/-- `write_raw` with unlocking (a value with NVM-RW-L locations, or force_unlock) on a
lockable bank: unlock, write, verify, lock again -/
theorem writeRaw_ok_unlock (u : MemUnit) (dev : Bool) (a bank : Nat) (locs : List (Nat × MemType))
    (raw : List Nat) (allowShort forceUnlock : Bool)
    (hl : u.Listens dev a) (hadv : u.advance = true) (hb : u.bank.number = bank)
    (hlock : u.bank.hasLock = true) (h2 : 2 ≤ u.bank.last)
    (hchk : writeChecks locs raw.length allowShort forceUnlock = .ok true)
    (hlocs : ∀ p ∈ (locs.map (·.1)).zip raw, p.1 ≤ 255)
    (hnl : ∀ p ∈ (locs.map (·.1)).zip raw, u.bank.isLockCell p.1 = false)
    (hcw : ∀ p ∈ (locs.map (·.1)).zip raw, u.bank.unlocked.canWrite u.unlockValue p.1 = true) :
    ∃ c, (writeRaw (if dev then .devShort a else .gearShort a) bank locs raw allowShort forceUnlock false).run
        MemUnit.step u =
      (.ok (), { u with clock := c, dtr0 := 3, dtr1 := bank, we := true,
                        bank := { u.bank with rw := writeAll ((locs.map (·.1)).zip raw) u.bank.rw,
                                              lockByte := 0xFF, snap := none } }) := by
  have hdev := hl.1
  have haddr := hl.2
  generalize hp : (locs.map (·.1)).zip raw = pairs at *
  have hcw2 : u.bank.canWrite u.unlockValue 2 = true := by
    simp [Bank.canWrite, Bank.implemented, Bank.isLockCell, hlock, h2]
  unfold writeRaw
  rw [resolve_short]
  simp only [hchk, hp, if_true, Bool.false_eq_true, if_false, run_send]
  have hu1 : ((((u.step (.dtr1 dev bank)).2.step (.enableWriteMemory dev a)).2.step (.dtr0 dev 2)).2.step
      (.writeMemoryLocationNoReply dev 0x55)).2 =
      { u with dtr1 := bank, we := true, clock := u.clock + 4, dtr0 := 3, bank := u.bank.unlocked } := by
    simp [MemUnit.step, MemUnit.exec, MemUnit.writeCell, MemUnit.incDtr0, Bank.store, Bank.isLockCell,
      Bank.unlocked, hdev, haddr, hb, hadv, hcw2, hlock]
  rw [hu1, run_bind]
  obtain ⟨c, hrun⟩ := (writeLoop_run dev pairs
    { u with dtr1 := bank, we := true, clock := u.clock + 4, dtr0 := 3, bank := u.bank.unlocked } (some 3)
    hdev hadv rfl hb.symm hlocs hnl (by intro x hx; cases hx; rfl)).1 hcw
  rw [hrun]
  refine ⟨c + 3, ?_⟩
  have hcw2' : ({ u.bank.unlocked with rw := writeAll pairs u.bank.unlocked.rw } : Bank).canWrite u.unlockValue 2 = true := by
    simp [Bank.canWrite, Bank.implemented, Bank.isLockCell, Bank.unlocked, hlock, h2]
  simp [MemUnit.step, MemUnit.exec, MemUnit.writeCell, MemUnit.incDtr0, Bank.store, Bank.isLockCell,
    Bank.unlocked, hdev, haddr, hb, hadv, hlock, finalD_some, hcw2'] 
  simp [Bank.canWrite, Bank.implemented, Bank.isLockCell, Bank.unlocked, hlock, h2]

/-- a target cell that cannot be written (beyond the last location, unimplemented,
read-only in the unit, or locked) makes the write fail loudly -/
theorem writeRaw_not_writable (u : MemUnit) (dev : Bool) (a bank : Nat) (locs : List (Nat × MemType))
    (raw : List Nat) (allowShort : Bool)
    (hl : u.Listens dev a) (hadv : u.advance = true) (hb : u.bank.number = bank)
    (hchk : writeChecks locs raw.length allowShort false = .ok false)
    (hlocs : ∀ p ∈ (locs.map (·.1)).zip raw, p.1 ≤ 255)
    (hnl : ∀ p ∈ (locs.map (·.1)).zip raw, u.bank.isLockCell p.1 = false)
    (hcw : ¬ ∀ p ∈ (locs.map (·.1)).zip raw, u.bank.canWrite u.unlockValue p.1 = true) :
    ((writeRaw (if dev then .devShort a else .gearShort a) bank locs raw allowShort false false).run
        MemUnit.step u).1 = .error .MemoryLocationNotWriteable := by
  have hdev := hl.1
  have haddr := hl.2
  generalize hp : (locs.map (·.1)).zip raw = pairs at *
  unfold writeRaw
  rw [resolve_short]
  simp only [hchk, hp, Bool.false_eq_true, if_false, run_send]
  have hu1 : ((u.step (.dtr1 dev bank)).2.step (.enableWriteMemory dev a)).2 =
      { u with dtr1 := bank, we := true, clock := u.clock + 2 } := by
    simp [MemUnit.step, MemUnit.exec, hdev, haddr]
  rw [hu1, run_bind]
  have := (writeLoop_run dev pairs { u with dtr1 := bank, we := true, clock := u.clock + 2 } none
    hdev hadv rfl hb.symm hlocs hnl (by intro x hx; cases hx)).2 hcw
  revert this
  generalize (writeLoop dev false pairs none).run MemUnit.step
    { u with dtr1 := bank, we := true, clock := u.clock + 2 } = r
  intro h
  obtain ⟨r1, r2⟩ := r
  simp only at h
  subst h
  rfl

/-- refused before anything is sent -/
theorem writeRaw_refused (arg : AddrArg) (bank : Nat) (locs : List (Nat × MemType)) (raw : List Nat)
    (s f i : Bool) (e : PyErr) (dev : Bool) (a : Nat) (hres : resolveAddr arg = .ok (dev, a))
    (hchk : writeChecks locs raw.length s f = .error e)
    (tr : List (Cmd × Resp)) (out : PyRes Unit) (h : Out (writeRaw arg bank locs raw s f i) tr out) :
    tr = [] ∧ out = .error e := by
  unfold writeRaw at h
  rw [hres] at h
  simp only [hchk] at h
  simpa using h

theorem writeChecks_readonly (locs : List (Nat × MemType)) (n : Nat) (s f : Bool)
    (hlen : if s then n ≤ locs.length else n = locs.length)
    (hro : ∃ l ∈ locs, l.2.writeable = false) :
    writeChecks locs n s f = .error .MemoryValueNotWriteable := by
  unfold writeChecks
  have h1 : ¬ (if s = true then n > locs.length else n ≠ locs.length) := by
    cases s <;> simp at hlen ⊢ <;> omega
  obtain ⟨l, hl, hw⟩ := hro
  have h2 : locs.any (fun l => !l.2.writeable) = true := by
    simp only [List.any_eq_true]; exact ⟨l, hl, by simp [hw]⟩
  simp [h1, h2]

theorem writeChecks_length (locs : List (Nat × MemType)) (n : Nat) (s f : Bool)
    (hlen : if s then n > locs.length else n ≠ locs.length) :
    writeChecks locs n s f = .error .ValueError := by
  unfold writeChecks
  simp [hlen]




theorem out_bind {α β} (p : Prog α) (f : α → Prog β) (tr : List (Cmd × Resp)) (out : PyRes β) :
    Out (p.bind f) tr out →
      (∃ tr1 tr2 x, tr = tr1 ++ tr2 ∧ Out p tr1 (.ok x) ∧ Out (f x) tr2 out) ∨
      (∃ e, Out p tr (.error e) ∧ out = .error e) := by
  induction p generalizing tr with
  | done x => intro h; left; exact ⟨[], tr, x, by simp, by simp, h⟩
  | fail e => intro h; right; simp [Prog.bind] at h; exact ⟨e, by simp [h.1], h.2⟩
  | send c k ih =>
    intro h
    simp only [Prog.bind, out_send] at h
    obtain ⟨r, tr', rfl, h⟩ := h
    rcases ih r tr' h with ⟨tr1, tr2, x, rfl, h1, h2⟩ | ⟨e, h1, h2⟩
    · left; exact ⟨(c, r) :: tr1, tr2, x, by simp, by simp only [out_send]; exact ⟨r, tr1, rfl, h1⟩, h2⟩
    · right; exact ⟨e, by simp only [out_send]; exact ⟨r, tr', rfl, h1⟩, h2⟩

theorem writeChecks_error (locs : List (Nat × MemType)) (n : Nat) (s f : Bool) (e : PyErr)
    (h : writeChecks locs n s f = .error e) : e = .ValueError ∨ e = .MemoryValueNotWriteable := by
  unfold writeChecks at h
  by_cases h1 : (if s = true then n > locs.length else n ≠ locs.length)
  · rw [if_pos h1] at h; cases h; left; rfl
  · rw [if_neg h1] at h
    by_cases h2 : (locs.any fun l => !l.2.writeable) = true
    · rw [if_pos h2] at h; cases h; right; rfl
    · rw [if_neg h2] at h; cases h

/-- every WRITE MEMORY LOCATION in the exchange was echoed with its own value -/
def EchoOK (tr : List (Cmd × Resp)) : Prop :=
  ∀ cr ∈ tr, ∀ d v, cr.1 = Cmd.writeMemoryLocation d v → cr.2 = Resp.byte v

theorem echoOK_nil : EchoOK [] := by intro cr h; cases h

theorem echoOK_cons (c : Cmd) (r : Resp) (tr : List (Cmd × Resp)) :
    EchoOK ((c, r) :: tr) ↔ (∀ d v, c = Cmd.writeMemoryLocation d v → r = Resp.byte v) ∧ EchoOK tr := by
  simp [EchoOK]

theorem echoOK_append (t1 t2 : List (Cmd × Resp)) : EchoOK (t1 ++ t2) ↔ EchoOK t1 ∧ EchoOK t2 := by
  simp only [EchoOK, List.mem_append]
  constructor
  · intro h; exact ⟨fun cr hc => h cr (Or.inl hc), fun cr hc => h cr (Or.inr hc)⟩
  · rintro ⟨h1, h2⟩ cr (hc | hc)
    · exact h1 cr hc
    · exact h2 cr hc

/-- the write loop against any responder (feedback checked) -/
theorem writeLoop_faults (dev : Bool) :
    ∀ (pairs : List (Nat × Nat)) (d : Option Nat) (tr : List (Cmd × Resp)) (out : PyRes (Option Nat)),
      Out (writeLoop dev false pairs d) tr out →
        (∃ d', out = .ok d' ∧ EchoOK tr) ∨
        ((out = .error .MemoryLocationNotWriteable ∨ out = .error .ResponseError) ∧ ¬ EchoOK tr) := by
  intro pairs
  induction pairs with
  | nil => intro d tr out h; simp [writeLoop] at h; left; exact ⟨d, h.2, h.1 ▸ echoOK_nil⟩
  | cons p ps ih =>
    intro d tr out h
    obtain ⟨l, v⟩ := p
    have body : ∀ tr, Out (Prog.send (.writeMemoryLocation dev v) fun r =>
              match r with
              | .none => Prog.fail .MemoryLocationNotWriteable
              | .err => Prog.fail .ResponseError
              | .byte b => if b ≠ v then Prog.fail .ResponseError
                           else writeLoop dev false ps (some (min (l + 1) 255))) tr out →
        (∃ d', out = .ok d' ∧ EchoOK tr) ∨
        ((out = .error .MemoryLocationNotWriteable ∨ out = .error .ResponseError) ∧ ¬ EchoOK tr) := by
      intro tr h
      rw [out_send] at h
      obtain ⟨r, tr', rfl, h⟩ := h
      cases r with
      | none =>
        simp at h; right
        exact ⟨Or.inl h.2, fun he => by have := ((echoOK_cons _ _ _).mp he).1 dev v rfl; cases this⟩
      | err =>
        simp at h; right
        exact ⟨Or.inr h.2, fun he => by have := ((echoOK_cons _ _ _).mp he).1 dev v rfl; cases this⟩
      | byte b =>
        simp only at h
        by_cases hbv : b = v
        · subst hbv
          simp only [ne_eq, not_true_eq_false, if_false] at h
          rcases ih _ _ _ h with ⟨d', h1, h2⟩ | ⟨h1, h2⟩
          · left; exact ⟨d', h1, (echoOK_cons _ _ _).mpr ⟨(by intro d v' hc; cases hc; rfl), h2⟩⟩
          · right; exact ⟨h1, fun he => h2 ((echoOK_cons _ _ _).mp he).2⟩
        · simp only [ne_eq, hbv, not_false_eq_true, if_true] at h
          simp at h; right
          exact ⟨Or.inr h.2, fun he => by
            have := ((echoOK_cons _ _ _).mp he).1 dev v rfl
            exact hbv (by cases this; rfl)⟩
    unfold writeLoop at h
    simp only [Bool.false_eq_true, if_false] at h
    by_cases hdl : d = some l
    · simp only [hdl, if_true] at h; exact body tr h
    · simp only [hdl, if_false] at h
      rw [out_send] at h
      obtain ⟨r, tr', rfl, h⟩ := h
      rcases body tr' h with ⟨d', h1, h2⟩ | ⟨h1, h2⟩
      · left; exact ⟨d', h1, (echoOK_cons _ _ _).mpr ⟨(by intro d v' hc; cases hc), h2⟩⟩
      · right; exact ⟨h1, fun he => h2 ((echoOK_cons _ _ _).mp he).2⟩

/-- `write_raw` against any responder, feedback checked: a normal return means
every write was echoed with its own value and DTR0 was read back as a clean
byte equal to the tracked value; every other outcome is a documented exception -/
theorem writeRaw_faults (arg : AddrArg) (bank : Nat) (locs : List (Nat × MemType)) (raw : List Nat)
    (s f : Bool) (tr : List (Cmd × Resp)) (out : PyRes Unit)
    (h : Out (writeRaw arg bank locs raw s f false) tr out) :
    (out = .ok () ∧ (∀ cr ∈ tr, ∀ d v, cr.1 = Cmd.writeMemoryLocation d v → cr.2 = Resp.byte v) ∧
      ∃ dev a b, (Cmd.queryContentDTR0 dev a, Resp.byte b) ∈ tr) ∨
    (∃ e, out = .error e ∧ (e = .TypeError ∨ e = .ValueError ∨ e = .MemoryValueNotWriteable ∨
      e = .MemoryLocationNotWriteable ∨ e = .ResponseError ∨ e = .MemoryWriteFailure)) := by
  unfold writeRaw at h
  cases hres : resolveAddr arg with
  | error e =>
    rw [hres] at h; simp at h; right
    refine ⟨e, h.2, ?_⟩
    cases arg <;> simp [resolveAddr] at hres
    · split at hres <;> simp at hres; subst hres; simp
    · subst hres; simp
  | ok da =>
    obtain ⟨dev, a⟩ := da
    rw [hres] at h
    simp only at h
    cases hchk : writeChecks locs raw.length s f with
    | error e =>
      rw [hchk] at h; simp at h; right
      refine ⟨e, h.2, ?_⟩
      rcases writeChecks_error _ _ _ _ _ hchk with rfl | rfl <;> simp
    | ok unlock =>
      rw [hchk] at h
      simp only [Bool.false_eq_true, if_false, out_send] at h
      obtain ⟨r1, t1, rfl, r2, t2, rfl, h⟩ := h
      -- the part after the optional unlock
      have main : ∀ (d : Option Nat) (tr : List (Cmd × Resp)),
          Out ((writeLoop dev false ((locs.map (·.1)).zip raw) d).bind fun d' =>
            Prog.send (.queryContentDTR0 dev a) fun r =>
              match r with
              | .none => Prog.fail .ResponseError
              | .err => Prog.fail .ResponseError
              | .byte b => if some b ≠ d' then Prog.fail .MemoryWriteFailure else
                  (if unlock then
                    Prog.send (.dtr0 dev 2) fun _ => Prog.send (.writeMemoryLocationNoReply dev 0xFF) fun _ => Prog.done ()
                  else Prog.done ())) tr out →
          (out = .ok () ∧ EchoOK tr ∧ ∃ dev a b, (Cmd.queryContentDTR0 dev a, Resp.byte b) ∈ tr) ∨
          (∃ e, out = .error e ∧ (e = .TypeError ∨ e = .ValueError ∨ e = .MemoryValueNotWriteable ∨
            e = .MemoryLocationNotWriteable ∨ e = .ResponseError ∨ e = .MemoryWriteFailure)) := by
        intro d tr h
        rcases out_bind _ _ _ _ h with ⟨tr1, tr2, d', rfl, h1, h2⟩ | ⟨e, h1, h2⟩
        · rcases writeLoop_faults dev _ _ _ _ h1 with ⟨_, _, hecho⟩ | ⟨hbad, _⟩
          · rw [out_send] at h2
            obtain ⟨r, tr3, rfl, h2⟩ := h2
            cases r with
            | none => simp at h2; right; exact ⟨_, h2.2, by simp⟩
            | err => simp at h2; right; exact ⟨_, h2.2, by simp⟩
            | byte b =>
              simp only at h2
              by_cases hb : some b = d'
              · simp only [hb, ne_eq, not_true_eq_false, if_false] at h2
                cases unlock
                · simp at h2
                  left
                  refine ⟨h2.2, ?_, dev, a, b, by simp⟩
                  rw [echoOK_append]; refine ⟨hecho, ?_⟩
                  rw [h2.1]; rw [echoOK_cons]; exact ⟨(by intro d v hc; cases hc), echoOK_nil⟩
                · simp at h2
                  obtain ⟨r4, t4, rfl, r5, t5, rfl, rfl, rfl⟩ := h2
                  left
                  refine ⟨rfl, ?_, dev, a, b, by simp⟩
                  rw [echoOK_append]; refine ⟨hecho, ?_⟩
                  simp [EchoOK]
              · simp only [ne_eq, hb, not_false_eq_true, if_true] at h2
                simp at h2; right; exact ⟨_, h2.2, by simp⟩
          · rcases hbad with hbad | hbad <;> cases hbad
        · rcases writeLoop_faults dev _ _ _ _ h1 with ⟨_, hok, _⟩ | ⟨hbad, _⟩
          · cases hok
          · right
            rcases hbad with hbad | hbad
            · cases hbad; exact ⟨_, h2, by simp⟩
            · cases hbad; exact ⟨_, h2, by simp⟩
      cases unlock
      · simp only [Bool.false_eq_true, if_false] at h main
        rcases main none _ h with ⟨h1, h2, dv, av, b, h3⟩ | h'
        · left
          refine ⟨h1, ?_, dv, av, b, by simp [h3]⟩
          have : EchoOK ((Cmd.dtr1 dev bank, r1) :: (Cmd.enableWriteMemory dev a, r2) :: t2) := by
            rw [echoOK_cons, echoOK_cons]
            exact ⟨(by intro d v hc; cases hc), (by intro d v hc; cases hc), h2⟩
          exact this
        · right; exact h'
      · simp only [if_true, out_send] at h main
        obtain ⟨r3, t3, rfl, r4, t4, rfl, h⟩ := h
        rcases main (some 3) _ h with ⟨h1, h2, dv, av, b, h3⟩ | h'
        · left
          refine ⟨h1, ?_, dv, av, b, by simp [h3]⟩
          have : EchoOK ((Cmd.dtr1 dev bank, r1) :: (Cmd.enableWriteMemory dev a, r2) ::
              (Cmd.dtr0 dev 2, r3) :: (Cmd.writeMemoryLocationNoReply dev 0x55, r4) :: t4) := by
            rw [echoOK_cons, echoOK_cons, echoOK_cons, echoOK_cons]
            exact ⟨(by intro d v hc; cases hc), (by intro d v hc; cases hc), (by intro d v hc; cases hc),
              (by intro d v hc; cases hc), h2⟩
          exact this
        · right; exact h'


end DaliVerif.DevMem
