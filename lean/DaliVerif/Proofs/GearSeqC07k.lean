import DaliVerif.Proofs.GearSeqC07j
/-!
# C07, part k: the clause checker finds nothing

`commCheck_nil_iff` (`commCheck … = []` iff each of its ten clause booleans is true) and
`commissioning_spec_aux`: for every bus with 24-bit random addresses, every duplicate-free permitted list within
0..63, both modes, dry run or not, and every run that does not exhaust the model's round budget:
`commCheck b avail re dry (run).void = []`.
-/
namespace DaliVerif.GearSeq
set_option linter.unusedSimpArgs false
set_option linter.unusedVariables false

/-! ## Packaging: the clause checker `commCheck` finds nothing -/

/-- forget the returned value (the ghost log), keep how the run ended -/
def Out.void {σ α : Type} (o : Out σ α) : Out σ Unit :=
  ⟨match o.res with | .ret _ => .ret () | .raised e => .raised e | .outOfFuel => .outOfFuel, o.st, o.trace⟩

theorem ite_nil (ok : Bool) (s : String) : (if ok = true then ([] : List String) else [s]) = [] ↔ ok = true := by
  cases ok <;> simp

theorem commCheck_nil_iff (b : Bus) (av : Option (List Nat)) (re dry : Bool) (o : Out Bus Unit) :
    commCheck b av re dry o = [] ↔
      (match o.res with
        | .ret _ => o.trace.getLast? == some .terminate && o.st.all (fun u => u.init == .disabled)
        | _ => true) = true ∧
      (match o.res with
        | .ret _ => true
        | .raised e => e == .ProgramShortAddressFailure && !dry && b.any (fun u => u.noStore || u.noVerify)
        | .outOfFuel => false) = true ∧
      nodupB (progArgs o.trace) = true ∧
      (progArgs o.trace == ((if re then av.getD (List.range 64) else (av.getD (List.range 64)).filter
        (fun a => !(b.filterMap (·.short)).contains a))).take (progArgs o.trace).length) = true ∧
      (re || (progArgs o.trace).all (fun a => !(b.filterMap (·.short)).contains a)) = true ∧
      (b.length == o.st.length &&
        (re || (b.zip o.st).all (fun (u, u') => u.short.isNone || u'.short == u.short))) = true ∧
      (!dry || ((progArgs o.trace).isEmpty && (b.zip o.st).all (fun (u, u') => u'.short == u.short))) = true ∧
      (match o.res with
        | .ret _ => dry || b.any (fun u => u.noStore || u.noVerify) ||
            (progArgs o.trace).length == min (b.filter (fun u => re || u.short.isNone)).length
              ((if re then av.getD (List.range 64) else (av.getD (List.range 64)).filter
                (fun a => !(b.filterMap (·.short)).contains a))).length
        | _ => true) = true ∧
      (match o.res with
        | .ret _ =>
          dry || b.any (fun u => u.noStore || u.noVerify) || countRandomise o.trace != 1 ||
            (let held := ((b.zip o.st).filter (fun (u, _) => re || u.short.isNone)).filterMap (fun (_, u') => u'.short)
             held.length == (progArgs o.trace).length && nodupB held && held.all (fun a => (progArgs o.trace).contains a))
        | _ => true) = true ∧
      decide (o.trace.length ≤ countRandomise o.trace * (b.length + 1) * 202 + 140) = true := by
  unfold commCheck
  simp only [List.append_eq_nil_iff, ite_nil, and_assoc]
  exact Iff.rfl


theorem nodupB_iff (l : List Nat) : nodupB l = true ↔ l.Nodup := by
  induction l with
  | nil => simp [nodupB]
  | cons x xs ih => simp [nodupB, ih, List.nodup_cons]

theorem count_held (b : Bus) (g : Gear → Gear) (p : Gear → Bool) (a : Nat) :
    (((b.zip (b.map g)).filter (fun (u, _) => p u)).filterMap (fun (_, u') => u'.short)).count a =
      b.countP (fun u => p u && ((g u).short == some a)) := by
  induction b with
  | nil => rfl
  | cons u b ih =>
    simp only [List.map_cons, List.zip_cons_cons, List.filter_cons, List.countP_cons]
    by_cases hp : p u = true
    · simp only [hp, if_true, List.filterMap_cons, Bool.true_and]
      cases hs : (g u).short with
      | none => simp [ih]
      | some x =>
        simp only [List.count_cons, ih]
        by_cases hx : x = a
        · subst hx; simp
        · have : (some x == some a) = false := by simp [hx]
          simp [hx, this]
    · have hp' : p u = false := by rw [← Bool.not_eq_true]; exact hp
      simp [hp', ih]

/-- **commissioning_spec** — every clause of the property's checker holds of every run that does not exhaust the
model's round budget -/
theorem commissioning_spec_aux (rounds : Nat) (avail : Option (List Nat)) (re dry : Bool) (b : Bus)
    (hwf : WF (view b)) (hnd : (avail.getD (List.range 64)).Nodup)
    (h64 : ∀ a ∈ avail.getD (List.range 64), a < 64)
    (hterm : (runBus (commissioning rounds avail re dry) b).res ≠ .outOfFuel) :
    commCheck b avail re dry (runBus (commissioning rounds avail re dry) b).void = [] := by
  rw [commCheck_nil_iff]
  have C := commissioning_bus rounds avail re dry b hwf hnd h64
  have hst := runBus_st (commissioning rounds avail re dry) b
  generalize ho : runBus (commissioning rounds avail re dry) b = o at C hst hterm
  have hpre : progArgs o.trace <+: (if re then avail.getD (List.range 64)
      else (avail.getD (List.range 64)).filter (fun a => !(b.filterMap (·.short)).contains a)) := by
    have := C.pre
    simp only [availAfter, inUseL_view] at this
    exact this
  have hsub : (if re then avail.getD (List.range 64)
      else (avail.getD (List.range 64)).filter (fun a => !(b.filterMap (·.short)).contains a)).Sublist
      (avail.getD (List.range 64)) := by
    split
    · exact List.Sublist.refl _
    · exact List.filter_sublist
  have hPnd : (progArgs o.trace).Nodup := (hpre.sublist.trans hsub).nodup hnd
  have hfaulty : b.any (fun u => u.noStore || u.noVerify) = false → NoFault (view b) := by
    intro hf v hv
    simp only [view, List.mem_map] at hv
    obtain ⟨u, hu, rfl⟩ := hv
    rw [List.any_eq_false] at hf
    have := hf u hu
    simp only [Gear.v]
    simpa using this
  simp only [Out.void]
  refine ⟨?_, ?_, ?_, ?_, ?_, ?_, ?_, ?_, ?_, ?_⟩
  · -- ends
    cases hres : o.res with
    | ret r =>
      dsimp only
      have E := commissioning_endsT Bus.exec rounds avail re dry b
      have D := all_disabled_of_endsT _ b E r (by rw [ho]; exact hres)
      obtain ⟨t, ht⟩ := E r (by show (runBus _ b).res = _; rw [ho]; exact hres)
      change (runBus _ b).trace = _ at ht
      rw [ho] at ht D
      rw [ht]
      simp only [List.getLast?_append, List.getLast?_singleton, Option.some_or, beq_self_eq_true, Bool.true_and,
        List.all_eq_true]
      intro u hu
      simp [D u hu]
    | raised e => rfl
    | outOfFuel => rfl
  · -- raise
    cases hres : o.res with
    | ret r => rfl
    | raised e =>
      dsimp only
      obtain ⟨a1, a2, a3, _⟩ := C.raise e hres
      subst a1; subst a2
      have : b.any (fun u => u.noStore || u.noVerify) = true := by
        cases hf : b.any (fun u => u.noStore || u.noVerify) with
        | true => rfl
        | false => exact absurd (hfaulty hf) a3
      simp [this]
    | outOfFuel => exact absurd hres hterm
  · exact (nodupB_iff _).mpr hPnd
  · rw [beq_iff_eq]; exact List.prefix_iff_eq_take.mp hpre
  · cases re with
    | true => rfl
    | false =>
      simp only [Bool.false_or, List.all_eq_true, Bool.false_eq_true, if_false] at hpre ⊢
      intro a ha
      have := hpre.sublist.subset ha
      rw [List.mem_filter] at this
      exact this.2
  · -- others
    rw [hst, List.length_map, all_zip_map]
    simp only [beq_self_eq_true, Bool.true_and]
    cases re with
    | true => rfl
    | false =>
      simp only [Bool.false_or, List.all_eq_true]
      intro u hu
      obtain ⟨g, hg1, hg2⟩ := commissioning_others rounds avail dry b
      cases hs : u.short with
      | none => simp
      | some x =>
        have := fold_keeps_short
        have key : ((runBus (commissioning rounds avail false dry) b).trace.foldl Gear.execSt u).short = u.short := by
          -- the unit-by-unit transformer is the fold of the trace
          have h1 := runBus_st (commissioning rounds avail false dry) b
          rw [hg1] at h1
          have h2 : g u = (runBus (commissioning rounds avail false dry) b).trace.foldl Gear.execSt u := by
            have := List.map_inj_left.mp h1 u hu
            exact this
          rw [← h2]; exact hg2 u (by rw [hs]; simp)
        rw [ho] at key
        simp [key, hs]
  · -- dry
    cases dry with
    | false => rfl
    | true =>
      simp only [Bool.not_true, Bool.false_or, Bool.and_eq_true, List.isEmpty_iff]
      refine ⟨C.dryP rfl, ?_⟩
      rw [hst, all_zip_map, List.all_eq_true]
      intro u _
      have := fold_keeps_short _ ((commissioning_dry_only rounds avail re).trace Bus.exec b) u
      change ((runBus _ b).trace.foldl Gear.execSt u).short = u.short at this
      rw [ho] at this
      simp [this]
  · -- count
    cases hres : o.res with
    | ret r =>
      dsimp only
      cases dry with
      | true => rfl
      | false =>
        have := C.count r hres rfl
        simp only [availAfter, inUseL_view] at this
        have e : parts re (view b) = (b.filter (fun u => re || u.short.isNone)).length := by
          rw [parts, view, List.countP_map, List.countP_eq_length_filter]; rfl
        rw [e] at this
        simp [this]
    | raised e => rfl
    | outOfFuel => rfl
  · -- holds
    cases hres : o.res with
    | ret r =>
      dsimp only
      cases dry with
      | true => rfl
      | false =>
        cases hf : b.any (fun u => u.noStore || u.noVerify) with
        | true => rfl
        | false =>
          by_cases h1 : countRandomise o.trace = 1
          · have H := commissioning_holds rounds avail re b hwf (hfaulty hf) r (by rw [ho]; exact hres)
              (by rw [ho]; exact h1)
            rw [ho] at H
            rw [hst]
            have hperm : (((b.zip (b.map fun u => o.trace.foldl Gear.execSt u)).filter
                (fun (u, _) => re || u.short.isNone)).filterMap (fun (_, u') => u'.short)).Perm
                (progArgs o.trace) := by
              rw [List.perm_iff_count]
              intro a
              rw [count_held b _ (fun u => re || u.short.isNone) a]
              exact H a
            simp only [Bool.false_or, h1, bne_self_eq_false, Bool.and_eq_true, beq_iff_eq, List.all_eq_true]
            refine ⟨⟨hperm.length_eq, (nodupB_iff _).mpr (hperm.nodup_iff.mpr hPnd)⟩, ?_⟩
            intro a ha
            exact List.contains_iff_mem.mpr (hperm.mem_iff.mp ha)
          · have : (countRandomise o.trace != 1) = true := by simpa using h1
            simp [this]
    | raised e => rfl
    | outOfFuel => rfl
  · -- bound
    apply decide_eq_true
    try dsimp only [Out.void]
    have h := C.len
    have hl : (view b).length = b.length := by simp [view]
    rw [hl] at h
    have : countRandomise o.trace * (199 * b.length + 199) ≤ countRandomise o.trace * (b.length + 1) * 202 := by
      rw [Nat.mul_assoc]
      exact Nat.mul_le_mul_left _ (by omega)
    omega

/-- bus of the non-vacuity examples in `Props/C07.lean`: four units, one already addressed (0), two of the
others clash on 1000 in the first round -/
def exBus : Bus :=
  [{ draws := [5] }, { draws := [1000, 777] }, { short := some 0, draws := [9] }, { draws := [1000, 778] }]

end DaliVerif.GearSeq
