import DaliVerif.Proofs.SerialRxSci
namespace DaliVerif.Proofs.SerialRx
open DaliVerif SerialRx Spec.Deframe
open Gen.DriverConsts

/-! ### LUBA: the frame in progress as a list (abstract machine) -/

structure AState where
  acc : List Nat
  rxdt : Nat
  txdt : Nat

def astep (o : Oracle) (a : AState) (b : Nat) : AState × List Item × Option RxErr :=
  match a.acc with
  | [] => if b = 0x59 then ({ a with acc := [b] }, [], none) else (a, [], none)
  | [y] => ({ a with acc := [y, b] }, [], none)
  | [y, c] =>
    if 0 < b ∧ b ≤ 20 then ({ a with acc := [y, c, b] }, [], none) else ({ a with acc := [] }, [], none)
  | y :: c :: n :: p =>
    if p.length < n then ({ a with acc := y :: c :: n :: (p ++ [b]) }, [], none)
    else
      if xorAll (c :: n :: p) ≠ b then ({ a with acc := [] }, [], none)
      else if Luba.knownCmd c = false then ({ a with acc := [] }, [], none)
      else
        match Luba.dispatch o a.rxdt a.txdt (y :: c :: n :: (p ++ [b])) with
        | .error e => (a, [], some (.handler e))
        | .ok (rx, tx, items) => (⟨[], rx, tx⟩, items, none)

/-- shape of the frame in progress -/
def AInv (acc : List Nat) : Prop :=
  acc = [] ∨ acc = [0x59] ∨ (∃ c, acc = [0x59, c]) ∨
  (∃ c n p, acc = 0x59 :: c :: n :: p ∧ 1 ≤ n ∧ n ≤ 20 ∧ p.length ≤ n)

def phaseOf : List Nat → Luba.Phase
  | [] => .waitStart
  | [_] => .waitCommand
  | [_, _] => .waitLength
  | _ :: _ :: n :: p => if p.length < n then .loopRead else .waitChecksum

def Rel (s : Luba.State) (a : AState) : Prop :=
  s.rxdt = a.rxdt ∧ s.txdt = a.txdt ∧ AInv a.acc ∧ s.phase = phaseOf a.acc ∧
  (∃ tail, s.buf = a.acc ++ tail ∧ a.acc.length + tail.length = 24) ∧
  s.received = a.acc.length - 3 ∧ (3 ≤ a.acc.length → s.expected = a.acc.getD 2 0)

theorem rel_init : Rel Luba.init ⟨[], 0, 0⟩ := by
  refine ⟨rfl, rfl, Or.inl rfl, rfl, ⟨List.replicate 24 0, ?_, ?_⟩, rfl, ?_⟩
  · simp [Luba.init, luba_MAX_LEN]
  · simp
  · intro h; simp at h

theorem sim (o : Oracle) (s : Luba.State) (a : AState) (b : Nat) (h : Rel s a) :
    (Luba.step o s b).items = (astep o a b).2.1 ∧ (Luba.step o s b).err = (astep o a b).2.2 ∧
    Rel (Luba.step o s b).state (astep o a b).1 := by
  obtain ⟨ph, buf, ex, rc, rx, tx⟩ := s
  obtain ⟨acc, arx, atx⟩ := a
  obtain ⟨h1, h2, hinv, hph, ⟨tail, hbuf, hlen⟩, hrc, hex⟩ := h
  simp only at h1 h2 hinv hph hbuf hlen hrc hex
  subst h1 h2 hbuf hph
  rcases hinv with hacc | hacc | ⟨c, hacc⟩ | ⟨c, n, p, hacc, hn1, hn20, hpn⟩
  · subst hacc
    match tail, hlen with
    | t0 :: tail', hlen =>
      simp only [List.length_nil, List.length_cons] at hlen hrc
      subst hrc
      by_cases hb : b = 0x59
      · subst hb
        simp [Luba.step, astep, phaseOf, bufSet, Rel, AInv]
        omega
      · simp [Luba.step, astep, phaseOf, bufSet, Rel, AInv, hb]
        omega
  · subst hacc
    match tail, hlen with
    | t0 :: tail', hlen =>
      simp only [List.length_nil, List.length_cons] at hlen hrc
      subst hrc
      simp [Luba.step, astep, phaseOf, bufSet, Rel, AInv]
      try omega
  · subst hacc
    match tail, hlen with
    | t0 :: tail', hlen =>
      simp only [List.length_nil, List.length_cons] at hlen hrc
      subst hrc
      by_cases hb : 0 < b ∧ b ≤ 20
      · simp [Luba.step, astep, phaseOf, bufSet, Rel, AInv, hb, luba_MAX_LEN]
        exact ⟨⟨c, b, [], ⟨rfl, rfl, rfl⟩, by omega, by omega, by simp⟩, by omega⟩
      · simp [Luba.step, astep, phaseOf, bufSet, Rel, AInv, hb, luba_MAX_LEN, Luba.State.reset]
  · subst hacc
    have htl : 1 ≤ tail.length := by simp only [List.length_cons] at hlen; omega
    match tail, htl with
    | t0 :: tail', _ =>
      simp only [List.length_cons] at hlen hrc
      have hrc' : rc = p.length := by omega
      subst hrc'
      have hex' : ex = n := by simpa using hex
      subst hex'
      by_cases hlt : p.length < ex
      · -- loop read
        have hset : (89 :: c :: ex :: (p ++ t0 :: tail')).set (2 + (p.length + 1)) b
            = 89 :: c :: ex :: (p ++ [b]) ++ tail' := by
          show ((89 :: c :: ex :: p) ++ t0 :: tail').set (2 + (p.length + 1)) b = _
          have : 2 + (p.length + 1) = (89 :: c :: ex :: p).length := by simp; omega
          rw [this, List.set_append_right _ _ (Nat.le_refl _)]
          simp
        have hbs : bufSet (89 :: c :: ex :: (p ++ t0 :: tail')) (2 + (p.length + 1)) b
            = some (89 :: c :: ex :: (p ++ [b]) ++ tail') := by
          unfold bufSet
          rw [if_pos (by simp; omega), hset]
        have hph : phaseOf (89 :: c :: ex :: p) = .loopRead := by simp [phaseOf, hlt]
        simp only [List.cons_append, Luba.step, hph, hbs, astep, hlt, if_true]
        refine ⟨trivial, trivial, rfl, rfl, Or.inr (Or.inr (Or.inr ⟨c, ex, p ++ [b], rfl, hn1, hn20, by simp; omega⟩)),
          ?_, ⟨tail', by simp, by simp; omega⟩, by simp, by simp⟩
        simp only [phaseOf, List.length_append, List.length_cons, List.length_nil]
        by_cases he : p.length + 1 = ex
        · simp [he]
        · have : p.length + 1 < ex := by omega
          simp [he, this]
      · -- checksum byte
        have hpe : p.length = ex := by omega
        have hset : (89 :: c :: ex :: (p ++ t0 :: tail')).set (p.length + 3) b
            = 89 :: c :: ex :: (p ++ [b]) ++ tail' := by
          show ((89 :: c :: ex :: p) ++ t0 :: tail').set (p.length + 3) b = _
          have : p.length + 3 = (89 :: c :: ex :: p).length := by simp
          rw [this, List.set_append_right _ _ (Nat.le_refl _)]
          simp
        have hbs : bufSet (89 :: c :: ex :: (p ++ t0 :: tail')) (p.length + 3) b
            = some (89 :: c :: ex :: (p ++ [b]) ++ tail') := by
          unfold bufSet
          rw [if_pos (by simp), hset]
        have hph : phaseOf (89 :: c :: ex :: p) = .waitChecksum := by simp [phaseOf, hlt]
        have htake : (89 :: c :: ex :: (p ++ [b] ++ tail')).take (p.length + 4) = 89 :: c :: ex :: (p ++ [b]) := by
          show ((89 :: c :: ex :: (p ++ [b])) ++ tail').take (p.length + 4) = _
          have : p.length + 4 = (89 :: c :: ex :: (p ++ [b])).length := by simp
          rw [this]
          exact List.take_left' rfl
        have hdl : (List.drop 1 (89 :: c :: ex :: (p ++ [b]))).dropLast = c :: ex :: p := by
          simp [List.dropLast]
        simp only [List.cons_append, Luba.step, hph, hbs, astep, hlt, if_false, htake, hdl, List.getD_cons_succ,
          List.getD_cons_zero]
        have hinv0 : AInv (89 :: c :: ex :: p) := Or.inr (Or.inr (Or.inr ⟨c, ex, p, rfl, hn1, hn20, hpn⟩))
        by_cases hx : xorAll (c :: ex :: p) = b
        · by_cases hk : Luba.knownCmd c = true
          · cases hd : Luba.dispatch o rx tx (89 :: c :: ex :: (p ++ [b])) with
            | error e =>
              simp only [hx, hk, hd, Rel, phaseOf, hlt]
              simp
              exact ⟨hinv0, by omega, by omega⟩
            | ok r =>
              obtain ⟨r1, r2, r3⟩ := r
              simp [hx, hk, hd, Rel, AInv, phaseOf, Luba.State.reset, luba_MAX_LEN]
          · simp [hx, hk, Rel, AInv, phaseOf, Luba.State.reset, luba_MAX_LEN]
        · simp [hx, Rel, AInv, phaseOf, Luba.State.reset, luba_MAX_LEN]



/-- `data_received` on the abstract machine -/
def arun (o : Oracle) (a : AState) : List Nat → AState × List Item × Option RxErr
  | [] => (a, [], none)
  | b :: bs =>
    match astep o a b with
    | (a', items, some e) => (a', items, some e)
    | (a', items, none) =>
      let r := arun o a' bs
      (r.1, items ++ r.2.1, r.2.2)

theorem run_sim (o : Oracle) (bytes : List Nat) : ∀ (s : Luba.State) (a : AState), Rel s a →
    (Luba.runChunk o s bytes).items = (arun o a bytes).2.1 ∧
    (Luba.runChunk o s bytes).err = (arun o a bytes).2.2 ∧
    Rel (Luba.runChunk o s bytes).state (arun o a bytes).1 := by
  induction bytes with
  | nil => intro s a h; exact ⟨rfl, rfl, h⟩
  | cons b bs ih =>
    intro s a h
    obtain ⟨h1, h2, h3⟩ := sim o s a b h
    simp only [Luba.runChunk, arun]
    rcases hst : astep o a b with ⟨a', items, err⟩
    rw [hst] at h1 h2 h3
    simp only at h1 h2 h3
    cases err with
    | some e =>
      simp only [h2]
      exact ⟨h1, trivial, h3⟩
    | none =>
      simp only [h2]
      obtain ⟨i1, i2, i3⟩ := ih _ _ h3
      exact ⟨by simp [h1, i1], i2, i3⟩

theorem astep_err (o : Oracle) (a : AState) (b : Nat) (e : RxErr) (h : (astep o a b).2.2 = some e) :
    ∃ x, e = .handler x := by
  unfold astep at h
  split at h
  · split at h <;> simp at h
  · simp at h
  · split at h <;> simp at h
  · split at h
    · simp at h
    · split at h
      · simp at h
      · split at h
        · simp at h
        · split at h
          · simp at h; exact ⟨_, h.symm⟩
          · simp at h

/-- no byte makes the state machine itself raise, from any state related to a frame in progress -/
theorem step_no_internal (o : Oracle) (s : Luba.State) (a : AState) (b : Nat) (h : Rel s a) (e : PyErr) :
    (Luba.step o s b).err ≠ some (.internal e) := by
  intro he
  rw [(sim o s a b h).2.1] at he
  obtain ⟨x, hx⟩ := astep_err o a b _ he
  cases hx

end DaliVerif.Proofs.SerialRx
