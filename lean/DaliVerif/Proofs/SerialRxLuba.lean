import DaliVerif.Proofs.SerialRxSci
namespace DaliVerif.Proofs.SerialRx
open DaliVerif SerialRx Spec.Deframe
open Gen.DriverConsts

/-! ### LUBA: the frame in progress as a list (abstract machine) -/

structure AState where
  acc : List Nat
  rxdt : Nat
  txdt : Nat

def astep (o : Oracle) (a : AState) (b : Nat) : AState × List Item × Option RxErr :=
  match a.acc with
  | [] => if b = 0x59 then ({ a with acc := [b] }, [], none) else (a, [], none)
  | [y] => ({ a with acc := [y, b] }, [], none)
  | [y, c] =>
    if 0 < b ∧ b ≤ 20 then ({ a with acc := [y, c, b] }, [], none) else ({ a with acc := [] }, [], none)
  | y :: c :: n :: p =>
    if p.length < n then ({ a with acc := y :: c :: n :: (p ++ [b]) }, [], none)
    else
      if xorAll (c :: n :: p) ≠ b then ({ a with acc := [] }, [], none)
      else if Luba.knownCmd c = false then ({ a with acc := [] }, [], none)
      else
        match Luba.dispatch o a.rxdt a.txdt (y :: c :: n :: (p ++ [b])) with
        | .error e => (a, [], some (.handler e))
        | .ok (rx, tx, items) => (⟨[], rx, tx⟩, items, none)

/-- shape of the frame in progress -/
def AInv (acc : List Nat) : Prop :=
  acc = [] ∨ acc = [0x59] ∨ (∃ c, acc = [0x59, c]) ∨
  (∃ c n p, acc = 0x59 :: c :: n :: p ∧ 1 ≤ n ∧ n ≤ 20 ∧ p.length ≤ n)

def phaseOf : List Nat → Luba.Phase
  | [] => .waitStart
  | [_] => .waitCommand
  | [_, _] => .waitLength
  | _ :: _ :: n :: p => if p.length < n then .loopRead else .waitChecksum

def Rel (s : Luba.State) (a : AState) : Prop :=
  s.rxdt = a.rxdt ∧ s.txdt = a.txdt ∧ AInv a.acc ∧ s.phase = phaseOf a.acc ∧
  (∃ tail, s.buf = a.acc ++ tail ∧ a.acc.length + tail.length = 24) ∧
  s.received = a.acc.length - 3 ∧ (3 ≤ a.acc.length → s.expected = a.acc.getD 2 0)

theorem rel_init : Rel Luba.init ⟨[], 0, 0⟩ := by
  refine ⟨rfl, rfl, Or.inl rfl, rfl, ⟨List.replicate 24 0, ?_, ?_⟩, rfl, ?_⟩
  · simp [Luba.init, luba_MAX_LEN]
  · simp
  · intro h; simp at h

theorem sim (o : Oracle) (s : Luba.State) (a : AState) (b : Nat) (h : Rel s a) :
    (Luba.step o s b).items = (astep o a b).2.1 ∧ (Luba.step o s b).err = (astep o a b).2.2 ∧
    Rel (Luba.step o s b).state (astep o a b).1 := by
  obtain ⟨ph, buf, ex, rc, rx, tx⟩ := s
  obtain ⟨acc, arx, atx⟩ := a
  obtain ⟨h1, h2, hinv, hph, ⟨tail, hbuf, hlen⟩, hrc, hex⟩ := h
  simp only at h1 h2 hinv hph hbuf hlen hrc hex
  subst h1 h2 hbuf hph
  rcases hinv with hacc | hacc | ⟨c, hacc⟩ | ⟨c, n, p, hacc, hn1, hn20, hpn⟩
  · subst hacc
    match tail, hlen with
    | t0 :: tail', hlen =>
      simp only [List.length_nil, List.length_cons] at hlen hrc
      subst hrc
      by_cases hb : b = 0x59
      · subst hb
        simp [Luba.step, astep, phaseOf, bufSet, Rel, AInv]
        omega
      · simp [Luba.step, astep, phaseOf, bufSet, Rel, AInv, hb]
        omega
  · subst hacc
    match tail, hlen with
    | t0 :: tail', hlen =>
      simp only [List.length_nil, List.length_cons] at hlen hrc
      subst hrc
      simp [Luba.step, astep, phaseOf, bufSet, Rel, AInv]
      try omega
  · subst hacc
    match tail, hlen with
    | t0 :: tail', hlen =>
      simp only [List.length_nil, List.length_cons] at hlen hrc
      subst hrc
      by_cases hb : 0 < b ∧ b ≤ 20
      · simp [Luba.step, astep, phaseOf, bufSet, Rel, AInv, hb, luba_MAX_LEN]
        exact ⟨⟨c, b, [], ⟨rfl, rfl, rfl⟩, by omega, by omega, by simp⟩, by omega⟩
      · simp [Luba.step, astep, phaseOf, bufSet, Rel, AInv, hb, luba_MAX_LEN, Luba.State.reset]
  · subst hacc
    have htl : 1 ≤ tail.length := by simp only [List.length_cons] at hlen; omega
    match tail, htl with
    | t0 :: tail', _ =>
      simp only [List.length_cons] at hlen hrc
      have hrc' : rc = p.length := by omega
      subst hrc'
      have hex' : ex = n := by simpa using hex
      subst hex'
      by_cases hlt : p.length < ex
      · -- loop read
        have hset : (89 :: c :: ex :: (p ++ t0 :: tail')).set (2 + (p.length + 1)) b
            = 89 :: c :: ex :: (p ++ [b]) ++ tail' := by
          show ((89 :: c :: ex :: p) ++ t0 :: tail').set (2 + (p.length + 1)) b = _
          have : 2 + (p.length + 1) = (89 :: c :: ex :: p).length := by simp; omega
          rw [this, List.set_append_right _ _ (Nat.le_refl _)]
          simp
        have hbs : bufSet (89 :: c :: ex :: (p ++ t0 :: tail')) (2 + (p.length + 1)) b
            = some (89 :: c :: ex :: (p ++ [b]) ++ tail') := by
          unfold bufSet
          rw [if_pos (by simp; omega), hset]
        have hph : phaseOf (89 :: c :: ex :: p) = .loopRead := by simp [phaseOf, hlt]
        simp only [List.cons_append, Luba.step, hph, hbs, astep, hlt, if_true]
        refine ⟨trivial, trivial, rfl, rfl, Or.inr (Or.inr (Or.inr ⟨c, ex, p ++ [b], rfl, hn1, hn20, by simp; omega⟩)),
          ?_, ⟨tail', by simp, by simp; omega⟩, by simp, by simp⟩
        simp only [phaseOf, List.length_append, List.length_cons, List.length_nil]
        by_cases he : p.length + 1 = ex
        · simp [he]
        · have : p.length + 1 < ex := by omega
          simp [he, this]
      · -- checksum byte
        have hpe : p.length = ex := by omega
        have hset : (89 :: c :: ex :: (p ++ t0 :: tail')).set (p.length + 3) b
            = 89 :: c :: ex :: (p ++ [b]) ++ tail' := by
          show ((89 :: c :: ex :: p) ++ t0 :: tail').set (p.length + 3) b = _
          have : p.length + 3 = (89 :: c :: ex :: p).length := by simp
          rw [this, List.set_append_right _ _ (Nat.le_refl _)]
          simp
        have hbs : bufSet (89 :: c :: ex :: (p ++ t0 :: tail')) (p.length + 3) b
            = some (89 :: c :: ex :: (p ++ [b]) ++ tail') := by
          unfold bufSet
          rw [if_pos (by simp), hset]
        have hph : phaseOf (89 :: c :: ex :: p) = .waitChecksum := by simp [phaseOf, hlt]
        have htake : (89 :: c :: ex :: (p ++ [b] ++ tail')).take (p.length + 4) = 89 :: c :: ex :: (p ++ [b]) := by
          show ((89 :: c :: ex :: (p ++ [b])) ++ tail').take (p.length + 4) = _
          have : p.length + 4 = (89 :: c :: ex :: (p ++ [b])).length := by simp
          rw [this]
          exact List.take_left' rfl
        have hdl : (List.drop 1 (89 :: c :: ex :: (p ++ [b]))).dropLast = c :: ex :: p := by
          simp [List.dropLast]
        simp only [List.cons_append, Luba.step, hph, hbs, astep, hlt, if_false, htake, hdl, List.getD_cons_succ,
          List.getD_cons_zero]
        have hinv0 : AInv (89 :: c :: ex :: p) := Or.inr (Or.inr (Or.inr ⟨c, ex, p, rfl, hn1, hn20, hpn⟩))
        by_cases hx : xorAll (c :: ex :: p) = b
        · by_cases hk : Luba.knownCmd c = true
          · cases hd : Luba.dispatch o rx tx (89 :: c :: ex :: (p ++ [b])) with
            | error e =>
              simp only [hx, hk, hd, Rel, phaseOf, hlt]
              simp
              exact ⟨hinv0, by omega, by omega⟩
            | ok r =>
              obtain ⟨r1, r2, r3⟩ := r
              simp [hx, hk, hd, Rel, AInv, phaseOf, Luba.State.reset, luba_MAX_LEN]
          · simp [hx, hk, Rel, AInv, phaseOf, Luba.State.reset, luba_MAX_LEN]
        · simp [hx, Rel, AInv, phaseOf, Luba.State.reset, luba_MAX_LEN]



/-- `data_received` on the abstract machine -/
def arun (o : Oracle) (a : AState) : List Nat → AState × List Item × Option RxErr
  | [] => (a, [], none)
  | b :: bs =>
    match astep o a b with
    | (a', items, some e) => (a', items, some e)
    | (a', items, none) =>
      let r := arun o a' bs
      (r.1, items ++ r.2.1, r.2.2)

theorem run_sim (o : Oracle) (bytes : List Nat) : ∀ (s : Luba.State) (a : AState), Rel s a →
    (Luba.runChunk o s bytes).items = (arun o a bytes).2.1 ∧
    (Luba.runChunk o s bytes).err = (arun o a bytes).2.2 ∧
    Rel (Luba.runChunk o s bytes).state (arun o a bytes).1 := by
  induction bytes with
  | nil => intro s a h; exact ⟨rfl, rfl, h⟩
  | cons b bs ih =>
    intro s a h
    obtain ⟨h1, h2, h3⟩ := sim o s a b h
    simp only [Luba.runChunk, arun]
    rcases hst : astep o a b with ⟨a', items, err⟩
    rw [hst] at h1 h2 h3
    simp only at h1 h2 h3
    cases err with
    | some e =>
      simp only [h2]
      exact ⟨h1, trivial, h3⟩
    | none =>
      simp only [h2]
      obtain ⟨i1, i2, i3⟩ := ih _ _ h3
      exact ⟨by simp [h1, i1], i2, i3⟩

theorem astep_err (o : Oracle) (a : AState) (b : Nat) (e : RxErr) (h : (astep o a b).2.2 = some e) :
    ∃ x, e = .handler x := by
  unfold astep at h
  split at h
  · split at h <;> simp at h
  · simp at h
  · split at h <;> simp at h
  · split at h
    · simp at h
    · split at h
      · simp at h
      · split at h
        · simp at h
        · split at h
          · simp at h; exact ⟨_, h.symm⟩
          · simp at h

/-- no byte makes the state machine itself raise, from any state related to a frame in progress -/
theorem step_no_internal (o : Oracle) (s : Luba.State) (a : AState) (b : Nat) (h : Rel s a) (e : PyErr) :
    (Luba.step o s b).err ≠ some (.internal e) := by
  intro he
  rw [(sim o s a b h).2.1] at he
  obtain ⟨x, hx⟩ := astep_err o a b _ he
  cases hx


theorem deframe_skip (o : Oracle) (ctx : Ctx) (b : Nat) (rest : List Nat) (hb : b ≠ 0x59) :
    lubaDeframe o ctx (b :: rest) = lubaDeframe o ctx rest := by
  rw [lubaDeframe.eq_def]; simp [hb]

theorem deframe_badlen (o : Oracle) (ctx : Ctx) (c n : Nat) (rest : List Nat) (hn : ¬ (1 ≤ n ∧ n ≤ 20)) :
    lubaDeframe o ctx (0x59 :: c :: n :: rest) = lubaDeframe o ctx rest := by
  rw [lubaDeframe.eq_def]; simp [lubaMaxPayload, hn]

theorem deframe_frame (o : Oracle) (ctx : Ctx) (c n b : Nat) (p rest : List Nat)
    (hn1 : 1 ≤ n) (hn20 : n ≤ 20) (hp : p.length = n) :
    lubaDeframe o ctx (0x59 :: c :: n :: (p ++ b :: rest)) =
      if xorSum (c :: n :: p) = b then
        (lubaMeaning o ctx c p).2 ++ lubaDeframe o (lubaMeaning o ctx c p).1 rest
      else lubaDeframe o ctx rest := by
  rw [lubaDeframe.eq_def]
  have h1 : ¬ (p.length + (rest.length + 1) < n + 1) := by omega
  have h2 : (p ++ b :: rest).take n = p := by rw [← hp]; exact List.take_left' rfl
  have h3 : (p ++ b :: rest)[n]?.getD 0 = b := by
    rw [← hp]; simp
  have h4 : (p ++ b :: rest).drop (n + 1) = rest := by
    rw [← hp]
    have : p ++ b :: rest = (p ++ [b]) ++ rest := by simp
    rw [this]; exact List.drop_left' (by simp)
  simp [lubaMaxPayload, hn1, hn20, h1, h2, h3, h4]

theorem deframe_prefix (o : Oracle) (ctx : Ctx) (acc : List Nat) (h : AInv acc) : lubaDeframe o ctx acc = [] := by
  rcases h with h | h | ⟨c, h⟩ | ⟨c, n, p, h, hn1, hn20, hp⟩
  · subst h; rw [lubaDeframe.eq_def]
  · subst h; rw [lubaDeframe.eq_def]; simp
  · subst h; rw [lubaDeframe.eq_def]; simp
  · subst h; rw [lubaDeframe.eq_def]; simp [lubaMaxPayload, hn1, hn20]; omega


theorem luba_status_facts : ∀ st, st < 256 → ((st &&& 192) >>> 6 = st / 64 ∧ st &&& 63 = st % 64) := by
  decide +kernel

theorem dtAfter_long (a b c : Nat) (l : List Nat) : dtAfter (a :: b :: c :: l) = 0 := by
  unfold dtAfter; split
  · rename_i h; simp at h
  · rfl

theorem nextDt_general (fr : List Nat) (hb : ∀ x ∈ fr, x < 256) :
    nextDt (8 * fr.length) (beValue fr) = dtAfter fr := by
  match fr, hb with
  | [], _ => simp [nextDt, isEDT, dtAfter]
  | [a], _ => simp [nextDt, isEDT, dtAfter]
  | [a, x], hb => exact nextDt_two a x (hb x (by simp))
  | a :: b :: c :: l, _ =>
    rw [dtAfter_long]
    apply nextDt_ne16
    simp only [List.length_cons]; omega

theorem event_meaning (o : Oracle) (rx tx : Nat) (p : List Nat) (hb : ∀ x ∈ p, x < 256)
    (hwf : Out.malformed ∉ (lubaEvent o ⟨rx, tx⟩ p).2) :
    ∃ items, Luba.event o rx tx p =
        .ok ((lubaEvent o ⟨rx, tx⟩ p).1.rxdt, (lubaEvent o ⟨rx, tx⟩ p).1.txdt, items) ∧
      (lubaEvent o ⟨rx, tx⟩ p).2 = items.map .item := by
  match p, hb, hwf with
  | [], _, hwf => simp [lubaEvent] at hwf
  | [_], _, hwf => simp [lubaEvent] at hwf
  | [_, _], _, hwf => simp [lubaEvent] at hwf
  | [_, _, _], _, hwf => simp [lubaEvent] at hwf
  | t1 :: t2 :: ln :: st :: rest, hb, hwf =>
    have hst : st < 256 := hb st (by simp)
    have hrest : ∀ x ∈ rest, x < 256 := fun x hx => hb x (by simp [hx])
    obtain ⟨f1, f2⟩ := luba_status_facts st hst
    simp only [lubaEvent] at hwf ⊢
    simp only [Luba.event, List.length_cons, List.getD_cons_succ, List.getD_cons_zero, luba_EVENT_TYPE_MASK,
      luba_EVENT_INFO_MASK, f1, f2, List.drop_succ_cons, List.drop_zero]
    by_cases h0 : st / 64 = 0
    · simp only [h0, if_true] at hwf ⊢
      match rest, hrest, hwf with
      | [], _, hwf => simp at hwf
      | id :: fr, hfr, hwf =>
        have hfr' : ∀ x ∈ fr, x < 256 := fun x hx => hfr x (by simp [hx])
        have hdt := nextDt_general fr hfr'
        simp only [List.length_cons, List.drop_succ_cons, List.drop_zero, ofBytesBE_eq, hdt]
        have l4 : ¬ (fr.length + 1 + 1 + 1 + 1 + 1 < 4) := by omega
        have l5 : ¬ (fr.length + 1 + 1 + 1 + 1 + 1 < 5) := by omega
        by_cases hok : fr ≠ [] ∧ o.tx (8 * fr.length) (beValue fr) tx = true
        · have hpos : 0 < fr.length := List.length_pos_iff.mpr hok.1
          refine ⟨[Item.txconf id (some ⟨8 * fr.length, beValue fr, tx⟩)], ?_, ?_⟩ <;>
            simp [hok, hpos, l4, l5]
        · have hok' : (decide (0 < fr.length) && o.tx (8 * fr.length) (beValue fr) tx) = false := by
            by_cases hnil : fr = []
            · simp [hnil]
            · have : ¬ (o.tx (8 * fr.length) (beValue fr) tx = true) := fun h => hok ⟨hnil, h⟩
              simp [this]
          refine ⟨[Item.txconf id none], ?_, ?_⟩ <;> simp [hok, hok', l4, l5]
    · simp only [h0, if_false] at hwf ⊢
      have l4 : ¬ (rest.length + 1 + 1 + 1 + 1 < 4) := by omega
      simp only [l4, if_false]
      have hne : (st / 64 == 0) = false := by simp [h0]
      simp only [hne]
      by_cases h2 : st / 64 = 2
      · simp only [h2, if_true] at hwf ⊢
        by_cases hin : 1 ≤ st % 64 ∧ st % 64 ≤ 32
        · simp only [hin, and_self, if_true] at hwf ⊢
          match rest, hrest with
          | [], _ => exact ⟨[], by simp, by simp⟩
          | [v], _ => exact ⟨[.raw v], by simp, by simp⟩
          | a :: b :: l, hr =>
            have hdt := nextDt_general (a :: b :: l) hr
            simp only [ofBytesBE_eq, hdt]
            by_cases hok : o.rx (8 * (l.length + 1 + 1)) (beValue (a :: b :: l)) rx = true
            · exact ⟨[.observed ⟨8 * (a :: b :: l).length, beValue (a :: b :: l), rx⟩], by simp [hok], by simp [hok]⟩
            · exact ⟨[], by simp [hok], by simp [hok]⟩
        · exact ⟨[], by simp [hin], by simp [hin]⟩
      · exact ⟨[], by simp [h2], by simp [h2]⟩

theorem knownCmd_handled : Luba.knownCmd 0x31 = true ∧ Luba.knownCmd 0x33 = true ∧
    Luba.knownCmd 0x21 = true ∧ Luba.knownCmd 0x2B = true := by decide

theorem meaning_unknown (o : Oracle) (ctx : Ctx) (c : Nat) (p : List Nat) (h : Luba.knownCmd c = false) :
    lubaMeaning o ctx c p = (ctx, []) := by
  obtain ⟨k1, k2, k3, k4⟩ := knownCmd_handled
  have n1 : c ≠ 0x31 := fun e => by rw [e, k1] at h; cases h
  have n2 : c ≠ 0x33 := fun e => by rw [e, k2] at h; cases h
  have n3 : c ≠ 0x21 := fun e => by rw [e, k3] at h; cases h
  have n4 : c ≠ 0x2B := fun e => by rw [e, k4] at h; cases h
  simp [lubaMeaning, n1, n2, n3, n4]

theorem dispatch_meaning (o : Oracle) (rx tx c n b : Nat) (p : List Nat) (hb : ∀ x ∈ p, x < 256)
    (hp : p.length = n) (hwf : Out.malformed ∉ (lubaMeaning o ⟨rx, tx⟩ c p).2) :
    ∃ items, Luba.dispatch o rx tx (0x59 :: c :: n :: (p ++ [b])) =
        .ok ((lubaMeaning o ⟨rx, tx⟩ c p).1.rxdt, (lubaMeaning o ⟨rx, tx⟩ c p).1.txdt, items) ∧
      (lubaMeaning o ⟨rx, tx⟩ c p).2 = items.map .item := by
  have hpl : (List.drop 3 (0x59 :: c :: n :: (p ++ [b]))).dropLast = p := by simp
  simp only [Luba.dispatch, List.getD_cons_succ, List.getD_cons_zero, hpl, lubaCmd_EVENT_MESSAGE,
    lubaCmd_ADD_DALI_FRAME_TO_TX_RSP, lubaCmd_QUERY_DEVICE_INFO_RSP, lubaCmd_READ_WRITE_SETTINGS_RSP]
  unfold lubaMeaning at hwf ⊢
  by_cases h1 : c = 0x31
  · simp only [h1, if_true] at hwf ⊢
    simpa using event_meaning o rx tx p hb hwf
  · by_cases h2 : c = 0x33
    · subst h2
      simp only [show ¬ (0x33 = 0x31) by decide, if_false, if_true] at hwf ⊢
      by_cases hl : p.length = 1 ∨ p.length = 2
      · refine ⟨[], ?_, by simp [hl]⟩
        rcases hl with hl | hl <;> simp [Luba.txResponse, ← hp, hl]
      · simp [hl] at hwf
    · by_cases h3 : c = 0x21
      · subst h3
        simp only [show ¬ (0x21 = 0x31) by decide, show ¬ (0x21 = 0x33) by decide, if_false, if_true] at hwf ⊢
        by_cases hl : p.length = 20
        · subst hp
          match p, hl with
          | [p0, p1, p2, p3, p4, p5, p6, p7, p8, p9, p10, p11, p12, p13, p14, p15, p16, p17, p18, p19], _ =>
            refine ⟨[.devinfo (beValue [p0, p1, p2, p3, p4, p5]) (beValue [p6, p7, p8, p9, p10, p11, p12, p13])
              p14 p15 (beValue [p16, p17, p18, p19])], ?_, ?_⟩ <;> simp [Luba.deviceInfo, ofBytesBE_eq]
        · simp [hl] at hwf
      · by_cases h4 : c = 0x2B
        · subst h4
          simp only [show ¬ (0x2B = 0x31) by decide, show ¬ (0x2B = 0x33) by decide,
            show ¬ (0x2B = 0x21) by decide, if_false, if_true] at hwf ⊢
          match p, hwf with
          | [], hwf => simp at hwf
          | [_], hwf => simp at hwf
          | m :: f :: l, _ => exact ⟨[.settings m f], by simp [Luba.settingsRsp], by simp⟩
        · refine ⟨[], ?_, by simp [h1, h2, h3, h4]⟩
          have e1 : (c == 49) = false := by simp; exact h1
          have e2 : (c == 51) = false := by simp; exact h2
          have e3 : (c == 33) = false := by simp; exact h3
          have e4 : (c == 43) = false := by simp; exact h4
          simp [e1, e2, e3, e4, h1, h2, h3, h4]

theorem arun_cons_none {o : Oracle} {a a' : AState} {b : Nat} {bs : List Nat} {items : List Item}
    (h : astep o a b = (a', items, none)) :
    arun o a (b :: bs) = ((arun o a' bs).1, items ++ (arun o a' bs).2.1, (arun o a' bs).2.2) := by
  simp [arun, h]

theorem arun_deframe (o : Oracle) : ∀ (bytes : List Nat) (a : AState), AInv a.acc →
    (∀ x ∈ a.acc ++ bytes, x < 256) →
    Out.malformed ∉ lubaDeframe o ⟨a.rxdt, a.txdt⟩ (a.acc ++ bytes) →
    (arun o a bytes).2.2 = none ∧
    (arun o a bytes).2.1.map Out.item = lubaDeframe o ⟨a.rxdt, a.txdt⟩ (a.acc ++ bytes) := by
  intro bytes
  induction bytes with
  | nil =>
    intro a hinv _ _
    simp [arun, deframe_prefix o _ a.acc hinv]
  | cons b bs ih =>
    intro a hinv hbd hwf
    obtain ⟨acc, rx, tx⟩ := a
    simp only at hinv hbd hwf ⊢
    rcases hinv with hacc | hacc | ⟨c, hacc⟩ | ⟨c, n, p, hacc, hn1, hn20, hpn⟩
    · subst hacc
      by_cases hb : b = 0x59
      · subst hb
        have hs : astep o ⟨[], rx, tx⟩ 0x59 = (⟨[0x59], rx, tx⟩, [], none) := by simp [astep]
        rw [arun_cons_none hs]
        have := ih ⟨[0x59], rx, tx⟩ (Or.inr (Or.inl rfl)) (by simpa using hbd) (by simpa using hwf)
        simpa using this
      · have hs : astep o ⟨[], rx, tx⟩ b = (⟨[], rx, tx⟩, [], none) := by simp [astep, hb]
        rw [arun_cons_none hs]
        have hd : lubaDeframe o ⟨rx, tx⟩ ([] ++ b :: bs) = lubaDeframe o ⟨rx, tx⟩ ([] ++ bs) := by
          simpa using deframe_skip o ⟨rx, tx⟩ b bs hb
        rw [hd] at hwf ⊢
        have := ih ⟨[], rx, tx⟩ (Or.inl rfl) (fun x hx => hbd x (by simp at hx ⊢; exact Or.inr hx)) hwf
        simpa using this
    · subst hacc
      have hs : astep o ⟨[0x59], rx, tx⟩ b = (⟨[0x59, b], rx, tx⟩, [], none) := by simp [astep]
      rw [arun_cons_none hs]
      have := ih ⟨[0x59, b], rx, tx⟩ (Or.inr (Or.inr (Or.inl ⟨b, rfl⟩))) (by simpa using hbd) (by simpa using hwf)
      simpa using this
    · subst hacc
      by_cases hb : 0 < b ∧ b ≤ 20
      · have hs : astep o ⟨[0x59, c], rx, tx⟩ b = (⟨[0x59, c, b], rx, tx⟩, [], none) := by simp [astep, hb]
        rw [arun_cons_none hs]
        have := ih ⟨[0x59, c, b], rx, tx⟩ (Or.inr (Or.inr (Or.inr ⟨c, b, [], rfl, by omega, by omega, by simp⟩)))
          (by simpa using hbd) (by simpa using hwf)
        simpa using this
      · have hs : astep o ⟨[0x59, c], rx, tx⟩ b = (⟨[], rx, tx⟩, [], none) := by simp [astep, hb]
        rw [arun_cons_none hs]
        have hd : lubaDeframe o ⟨rx, tx⟩ ([0x59, c] ++ b :: bs) = lubaDeframe o ⟨rx, tx⟩ ([] ++ bs) := by
          simpa using deframe_badlen o ⟨rx, tx⟩ c b bs (by omega)
        rw [hd] at hwf ⊢
        have := ih ⟨[], rx, tx⟩ (Or.inl rfl) (fun x hx => hbd x (by simp at hx ⊢; exact Or.inr (Or.inr (Or.inr hx)))) hwf
        simpa using this
    · subst hacc
      by_cases hlt : p.length < n
      · have hs : astep o ⟨0x59 :: c :: n :: p, rx, tx⟩ b = (⟨0x59 :: c :: n :: (p ++ [b]), rx, tx⟩, [], none) := by
          simp [astep, hlt]
        rw [arun_cons_none hs]
        have := ih ⟨0x59 :: c :: n :: (p ++ [b]), rx, tx⟩
          (Or.inr (Or.inr (Or.inr ⟨c, n, p ++ [b], rfl, hn1, hn20, by simp; omega⟩)))
          (by simpa using hbd) (by simpa using hwf)
        simpa using this
      · have hpe : p.length = n := by omega
        have hfr := deframe_frame o ⟨rx, tx⟩ c n b p bs hn1 hn20 hpe
        have hfr' : lubaDeframe o ⟨rx, tx⟩ ((0x59 :: c :: n :: p) ++ b :: bs) = _ := hfr
        rw [hfr'] at hwf ⊢
        have hbs : ∀ x ∈ [] ++ bs, x < 256 := fun x hx => hbd x (by simp at hx ⊢; right; right; right; right; right; exact hx)
        have hpb : ∀ x ∈ p, x < 256 := fun x hx => hbd x (by simp; right; right; right; left; exact hx)
        by_cases hx : xorSum (c :: n :: p) = b
        · simp only [hx, if_true] at hwf ⊢
          have hx' : xorAll (c :: n :: p) = b := by rw [xorAll_eq]; exact hx
          by_cases hk : Luba.knownCmd c = true
          · have hwf1 : Out.malformed ∉ (lubaMeaning o ⟨rx, tx⟩ c p).2 := fun h => hwf (List.mem_append_left _ h)
            have hwf2 : Out.malformed ∉ lubaDeframe o (lubaMeaning o ⟨rx, tx⟩ c p).1 bs :=
              fun h => hwf (List.mem_append_right _ h)
            obtain ⟨items, hd1, hd2⟩ := dispatch_meaning o rx tx c n b p hpb hpe hwf1
            have hs : astep o ⟨0x59 :: c :: n :: p, rx, tx⟩ b =
                (⟨[], (lubaMeaning o ⟨rx, tx⟩ c p).1.rxdt, (lubaMeaning o ⟨rx, tx⟩ c p).1.txdt⟩, items, none) := by
              simp [astep, hlt, hx', hk, hd1]
            rw [arun_cons_none hs]
            have := ih ⟨[], (lubaMeaning o ⟨rx, tx⟩ c p).1.rxdt, (lubaMeaning o ⟨rx, tx⟩ c p).1.txdt⟩ (Or.inl rfl) hbs
              (by simpa using hwf2)
            simp only [List.nil_append] at this
            simp [this.1, this.2, hd2]
          · have hk' : Luba.knownCmd c = false := by simpa using hk
            have hm := meaning_unknown o ⟨rx, tx⟩ c p hk'
            have hs : astep o ⟨0x59 :: c :: n :: p, rx, tx⟩ b = (⟨[], rx, tx⟩, [], none) := by
              simp [astep, hlt, hx', hk']
            rw [arun_cons_none hs]
            rw [hm] at hwf ⊢
            have := ih ⟨[], rx, tx⟩ (Or.inl rfl) hbs (by simpa using hwf)
            simpa using this
        · simp only [hx, if_false] at hwf ⊢
          have hx' : ¬ xorAll (c :: n :: p) = b := by rw [xorAll_eq]; exact hx
          have hs : astep o ⟨0x59 :: c :: n :: p, rx, tx⟩ b = (⟨[], rx, tx⟩, [], none) := by
            simp [astep, hlt, hx']
          rw [arun_cons_none hs]
          have := ih ⟨[], rx, tx⟩ (Or.inl rfl) hbs (by simpa using hwf)
          simpa using this

/-! ### chunking -/

theorem Luba.runChunk_append (o : Oracle) (a b : List Nat) : ∀ (s : Luba.State), (Luba.runChunk o s a).err = none →
    Luba.runChunk o s (a ++ b) =
      ⟨(Luba.runChunk o (Luba.runChunk o s a).state b).state,
       (Luba.runChunk o s a).items ++ (Luba.runChunk o (Luba.runChunk o s a).state b).items,
       (Luba.runChunk o (Luba.runChunk o s a).state b).err⟩ := by
  induction a with
  | nil => intro s _; simp [Luba.runChunk]
  | cons x xs ih =>
    intro s h
    simp only [Luba.runChunk, List.cons_append] at h ⊢
    cases he : (Luba.step o s x).err with
    | some e => simp [he] at h
    | none =>
      simp only [he] at h ⊢
      rw [ih _ h]
      simp

theorem Sci.runChunk_append (o : Oracle) (a b : List Nat) : ∀ (s : Sci.State), (Sci.runChunk o s a).err = none →
    Sci.runChunk o s (a ++ b) =
      ⟨(Sci.runChunk o (Sci.runChunk o s a).state b).state,
       (Sci.runChunk o s a).items ++ (Sci.runChunk o (Sci.runChunk o s a).state b).items,
       (Sci.runChunk o (Sci.runChunk o s a).state b).err⟩ := by
  induction a with
  | nil => intro s _; simp [Sci.runChunk]
  | cons x xs ih =>
    intro s h
    simp only [Sci.runChunk, List.cons_append] at h ⊢
    cases he : (Sci.step o s x).err with
    | some e => simp [he] at h
    | none =>
      simp only [he] at h ⊢
      rw [ih _ h]
      simp

theorem arun_err (o : Oracle) (bytes : List Nat) : ∀ (a : AState) (e : RxErr), (arun o a bytes).2.2 = some e →
    ∃ x, e = .handler x := by
  induction bytes with
  | nil => intro a e h; simp [arun] at h
  | cons b bs ih =>
    intro a e h
    simp only [arun] at h
    rcases hst : astep o a b with ⟨a', items, err⟩
    rw [hst] at h
    cases err with
    | some e' =>
      simp only at h
      have : (astep o a b).2.2 = some e' := by rw [hst]
      obtain ⟨x, hx⟩ := astep_err o a b e' this
      exact ⟨x, by rw [← hx]; exact (Option.some.inj h).symm⟩
    | none => exact ih a' e h

end DaliVerif.Proofs.SerialRx
