/-!
# Python values and exception classes shared by every model

Only what the modelled code can observe is kept: the *class* of an exception
(never its message) and, for an argument, the distinctions Python's
`isinstance(x, int)`, truthiness, `is True`, `== 1` make.
-/
namespace DaliVerif

/-- Exception classes raised by the modelled code. -/
inductive PyErr where
  | TypeError | ValueError | IndexError | OverflowError | AttributeError
  | KeyError | NotImplementedError | AssertionError | RuntimeError
  | IncompatibleFrame | MissingResponse | ResponseError | DALISequenceError
  | ProgramShortAddressFailure
  | MemoryLocationNotImplemented | MemoryValueNotWriteable
  | MemoryLocationNotWriteable | MemoryWriteFailure | MemoryWriteError
  | CommunicationError | UnsupportedFrameTypeError | Exception
  deriving DecidableEq, Repr, Inhabited

def PyErr.name : PyErr → String
  | .TypeError => "TypeError" | .ValueError => "ValueError"
  | .IndexError => "IndexError" | .OverflowError => "OverflowError"
  | .AttributeError => "AttributeError" | .KeyError => "KeyError"
  | .NotImplementedError => "NotImplementedError"
  | .AssertionError => "AssertionError" | .RuntimeError => "RuntimeError"
  | .IncompatibleFrame => "IncompatibleFrame"
  | .MissingResponse => "MissingResponse" | .ResponseError => "ResponseError"
  | .DALISequenceError => "DALISequenceError"
  | .ProgramShortAddressFailure => "ProgramShortAddressFailure"
  | .MemoryLocationNotImplemented => "MemoryLocationNotImplemented"
  | .MemoryValueNotWriteable => "MemoryValueNotWriteable"
  | .MemoryLocationNotWriteable => "MemoryLocationNotWriteable"
  | .MemoryWriteFailure => "MemoryWriteFailure"
  | .MemoryWriteError => "MemoryWriteError"
  | .CommunicationError => "CommunicationError"
  | .UnsupportedFrameTypeError => "UnsupportedFrameTypeError"
  | .Exception => "Exception"

/-- A Python argument as far as the modelled code can tell values apart.
`float none` is a float with a fractional part, `float (some n)` the float
equal to the integer `n`; `ints` is a list / tuple / `bytes` of integers;
`obj` is any object with no relevant protocol (always truthy). -/
inductive PyVal where
  | int (i : Int)
  | bool (b : Bool)
  | none
  | str (s : String)
  | float (whole : Option Int)
  | ints (l : List Int)
  | obj
  deriving DecidableEq, Repr, Inhabited

namespace PyVal

/-- `isinstance(x, int)` (bool is a subclass of int) and then the integer. -/
def asInt? : PyVal → Option Int
  | .int i => some i
  | .bool b => some (if b then 1 else 0)
  | _ => Option.none

/-- Python truthiness. -/
def truthy : PyVal → Bool
  | .int i => i != 0
  | .bool b => b
  | .none => false
  | .str s => s != ""
  | .float w => w != some 0
  | .ints l => !l.isEmpty
  | .obj => true

/-- `x == 1` in the sense used by `x in (None, 1)`. -/
def eqOne : PyVal → Bool
  | .int i => i == 1
  | .bool b => b
  | .float w => w == some 1
  | _ => false

end PyVal

/-- `int.bit_length()` -/
def bitLength (i : Int) : Nat := i.natAbs.log2 + (if i = 0 then 0 else 1)

abbrev PyRes (α : Type) := Except PyErr α

deriving instance DecidableEq for Except

end DaliVerif
