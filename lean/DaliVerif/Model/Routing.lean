import DaliVerif.Model.Answer
/-!
# C16 — routing of gateway reports to the waiting caller

Three small transition systems, one per routing discipline.  Each carries
*ghost* data (not present in the Python) so that "whose answer is this" can be
stated: an allocation index for Tridonic commands, a logical clock for the
single-slot gateways.

* `Tri` — `hid.tridonic`: `_outstanding` maps a sequence number to the message
  list of the `_send_raw` that allocated it (l.423-431); `_handle_read` appends
  a `_MODE_RESPONSE` report to the list of its sequence number if that number
  is outstanding and drops it otherwise (l.651-662); `del
  self._outstanding[seq]` when the command is done (l.478).
* `Slot` — `hid.hasseb`: one `_response` slot and one event; the sender clears
  the event after its write (l.729), the reader stores every report whose
  status is not NO DATA AVAILABLE and sets the event (l.761-763).
* `Que` — LUBA / SCI: `reset_dali_response()` empties the raw-answer queue
  before the write (l.1079 / l.1670), the receiver appends every 8-bit frame
  (l.861 / l.1543), the sender takes the head within `timeout_rx` or gives up.
-/
namespace DaliVerif.Routing
open DaliVerif.Answer

/-! ## Tridonic: outstanding-by-sequence-number -/

/-- `_seqnum`: `i += 1; if i > 0xff: i = 1` -/
def nextSeq (i : Nat) : Nat := if i + 1 > 0xff then 1 else i + 1

/-- the k-th value drawn from `_seqnum(s0)` -/
def seqAt (s0 : Nat) : Nat → Nat
  | 0 => s0
  | k + 1 => nextSeq (seqAt s0 k)

/-- a report with ghost `about` = allocation index of the command it is about -/
structure RMsg where
  about : Nat
  msg : TMsg
  deriving DecidableEq, Repr

/-- one entry of `_outstanding`: key, ghost allocation index, message list -/
structure Entry where
  seq : Nat
  idx : Nat
  msgs : List RMsg
  deriving DecidableEq, Repr

structure Tri where
  s0 : Nat                 -- first sequence number (random 1..255)
  next : Nat               -- ghost: how many numbers have been drawn
  written : List Nat       -- ghost: allocation indices whose command was written
  out : List Entry         -- `_outstanding`
  deriving Repr

def Tri.init (s0 : Nat) : Tri := ⟨s0, 0, [], []⟩

inductive TriEv where
  | alloc                          -- `seq = next(self._cmd_seq)` … `os.write`
  | deliver (about : Nat) (m : TMsg) -- `_handle_read` of a `_MODE_RESPONSE` report about command `about`
  | finish (idx : Nat)             -- `del self._outstanding[seq]`
  deriving Repr

/-- `ok` = false when `assert seq not in self._outstanding` fails -/
def Tri.step (t : Tri) : TriEv → Tri × Bool
  | .alloc =>
    let s := seqAt t.s0 t.next
    if t.out.any (·.seq == s) then ({ t with next := t.next + 1 }, false)
    else ({ t with next := t.next + 1, written := t.next :: t.written,
                   out := t.out ++ [⟨s, t.next, []⟩] }, true)
  | .deliver about m =>
    let s := seqAt t.s0 about
    ({ t with out := t.out.map (fun e => if e.seq == s then { e with msgs := e.msgs ++ [⟨about, m⟩] } else e) },
     true)
  | .finish idx => ({ t with out := t.out.filter (·.idx != idx) }, true)

def Tri.run (t : Tri) (evs : List TriEv) : Tri := evs.foldl (fun t e => (t.step e).1) t

/-! ## hasseb: single slot -/

structure Slot where
  clock : Nat                      -- ghost
  slot : Option (Nat × HRep)       -- `_response`, with the ghost time it was stored
  avail : Bool                     -- `_response_available`
  holder : Option (Nat × Nat)      -- task inside `_command_lock`, ghost time of its `clear()`
  deriving Repr

def Slot.init : Slot := ⟨0, none, false, none⟩

inductive SlotEv where
  | write (t : Nat)       -- the writes and `self._response_available.clear()` (no await in between)
  | writeNoWait           -- the same for a command without response class: nothing is awaited, the lock is released at once
  | report (r : HRep)     -- `_handle_read` with status ≠ NO DATA AVAILABLE, or `_shutdown_device`
  | wake (t : Nat)        -- the waiter resumes, clears the event and reads `self._response`
  deriving Repr

/-- state and, for `wake`, what the task read: (task, ghost time stored, report) -/
def Slot.step (s : Slot) : SlotEv → Slot × Option (Nat × Nat × HRep)
  | .write t =>
    match s.holder with
    | some _ => ({ s with clock := s.clock + 1 }, none)          -- lock taken: not enabled
    | none => ({ s with clock := s.clock + 1, avail := false, holder := some (t, s.clock) }, none)
  | .writeNoWait =>
    match s.holder with
    | some _ => ({ s with clock := s.clock + 1 }, none)
    | none => ({ s with clock := s.clock + 1, avail := false }, none)
  | .report r => ({ s with clock := s.clock + 1, slot := some (s.clock + 1, r), avail := true }, none)
  | .wake t =>
    match s.holder, s.avail, s.slot with
    | some (t', _), true, some (τ, r) =>
      if t' = t then ({ s with clock := s.clock + 1, avail := false, holder := none }, some (t, τ, r))
      else ({ s with clock := s.clock + 1 }, none)
    | _, _, _ => ({ s with clock := s.clock + 1 }, none)

/-! ## LUBA / SCI: one queue, flushed before the write -/

structure Que where
  clock : Nat
  raw : List (Nat × Nat)           -- `_queue_rx_raw_dali`: (ghost time queued, byte)
  holder : Option (Nat × Nat)      -- task holding the transaction lock, ghost time of its flush
  deriving Repr

def Que.init : Que := ⟨0, [], none⟩

inductive QueEv where
  | flush (t : Nat)       -- `reset_dali_response()` at the start of `send`
  | rx (b : Nat)          -- the receiver queues an 8-bit frame
  | take (t : Nat)        -- `wait_for(queue.get(), timeout_rx)` returns the head
  | giveUp (t : Nat)      -- … or times out with the queue empty; also the end of a non-query send
  deriving Repr

/-- `all` = true: discard everything (the repaired code); false: discard the
head only (the code before the repair) -/
def Que.stepWith (all : Bool) (q : Que) : QueEv → Que × Option (Nat × Option (Nat × Nat))
  | .flush t =>
    match q.holder with
    | some _ => ({ q with clock := q.clock + 1 }, none)
    | none => ({ q with clock := q.clock + 1, raw := if all then [] else q.raw.drop 1,
                        holder := some (t, q.clock) }, none)
  | .rx b => ({ q with clock := q.clock + 1, raw := q.raw ++ [(q.clock + 1, b)] }, none)
  | .take t =>
    match q.holder, q.raw with
    | some (t', _), x :: rest =>
      if t' = t then ({ q with clock := q.clock + 1, raw := rest, holder := none }, some (t, some x))
      else ({ q with clock := q.clock + 1 }, none)
    | _, _ => ({ q with clock := q.clock + 1 }, none)
  | .giveUp t =>
    match q.holder with
    | some (t', _) =>
      if t' = t then ({ q with clock := q.clock + 1, holder := none }, some (t, none))
      else ({ q with clock := q.clock + 1 }, none)
    | none => ({ q with clock := q.clock + 1 }, none)

def Que.step := Que.stepWith true

/-! ## ATX LED hat: one serial port, reply lines in wire order, one lock

`atxled.SyncDaliHatDriver.send` runs its whole exchange — `conn.write(cmd)`,
then `read_line()` until the reply line(s) of that transmission have been read
— inside `with self.lock:` (a `threading.RLock`; `read_line` re-enters it).
The hat prints one line per transmitted frame, in wire order, with nothing in
it that says which command it answers.  Ghost data: every pending line carries
the thread whose transmission it answers. -/

structure Hat where
  lines : List Nat             -- reply lines printed and not yet read (ghost: whose transmission)
  holder : Option Nat          -- the thread inside the outermost `with self.lock:`
  owed : Nat                   -- lines the holder has caused and not read yet
  deriving Repr, DecidableEq

def Hat.init : Hat := ⟨[], none, 0⟩

inductive HatEv where
  | acquire (t : Nat)          -- enters the outermost `with self.lock:`
  | write (t n : Nat)          -- `conn.write(cmd)`: the hat will print `n` lines for it (2 for send-twice)
  | read (t : Nat)             -- `read_line()` returns the next line
  | release (t : Nat)          -- leaves the outermost `with self.lock:`
  deriving Repr

/-- `none` = the event is not enabled.  For `read`: (reader, ghost owner of the
line).  `strict` = true is the code: `send` leaves the lock only after it has
read a line for every frame it had transmitted (the hat answers within the five
reads); `strict` = false lets go of the lock at any time (a lock that brackets
the write only). -/
def Hat.stepWith (strict : Bool) (h : Hat) : HatEv → Option (Hat × Option (Nat × Nat))
  | .acquire t =>
    if h.holder = none then some ({ h with holder := some t, owed := 0 }, none) else none
  | .write t n =>
    if h.holder = some t then
      some ({ h with lines := h.lines ++ List.replicate n t, owed := h.owed + n }, none)
    else none
  | .read t =>
    if h.holder = some t then
      match h.lines with
      | l :: rest => some ({ h with lines := rest, owed := h.owed - 1 }, some (t, l))
      | [] => none
    else none
  | .release t =>
    if h.holder = some t ∧ (strict = false ∨ h.owed = 0) then some ({ h with holder := none }, none)
    else none

def Hat.step := Hat.stepWith true

end DaliVerif.Routing
