import DaliVerif.Model.Py
/-!
# Types shared by the response model, its generated table and its specification

`RespClass` is one row of `Gen.responses` (written by `tools/gen/responses.py`
from the working tree): which *function object* implements each accessor of a
response class (that decides the model "kind"; an implementor the model does
not know is `custom "<qualname>"`, for which no semantics exists) and the
class data the accessors read (`_expected`, `_error_acceptable`, `bits`,
`_bit_properties`, enumerator members, `_types`).
-/
namespace DaliVerif.Resp

/-- What the bus delivered for one query: silence, a clean 8-bit backward
frame, or a backward frame received with a framing error (the byte the
gateway reports is kept: the code can see it). -/
inductive Outcome where
  | none
  | ok (b : Fin 256)
  | err (b : Fin 256)
  deriving DecidableEq, Repr

/-- every outcome, as a list (513 entries) -/
def allOutcomes : List Outcome :=
  .none :: ((List.finRange 256).map .ok ++ (List.finRange 256).map .err)

theorem mem_allOutcomes (o : Outcome) : o ∈ allOutcomes := by
  cases o with
  | none => simp [allOutcomes]
  | ok b => simp [allOutcomes, List.mem_finRange]
  | err b => simp [allOutcomes, List.mem_finRange]

instance (P : Outcome → Prop) [DecidablePred P] : Decidable (∀ o, P o) :=
  decidable_of_iff (P .none ∧ (∀ b : Fin 256, P (.ok b)) ∧ (∀ b : Fin 256, P (.err b)))
    ⟨fun h o => by cases o with
      | none => exact h.1
      | ok b => exact h.2.1 b
      | err b => exact h.2.2 b,
     fun h => ⟨h _, fun b => h _, fun b => h _⟩⟩

/-- A Python value handed back by a response accessor. `frame e b` is the
`BackwardFrame` object itself (`e` = it is a `BackwardFrameError`); `enum n`
is the member of the class's enumerator whose integer value is `n`. -/
inductive Val where
  | none
  | frame (err : Bool) (b : Nat)
  | int (n : Nat)
  | bool (b : Bool)
  | str (s : String)
  | enum (n : Nat)
  | strs (l : List String)
  deriving DecidableEq, Repr

/-- the text of `str(response)`; `volts n` stands for Python's rendering of
the float `n * 0.04` followed by `" V"` (floats are not modelled) -/
inductive Text where
  | s (s : String)
  | volts (n : Nat)
  deriving DecidableEq, Repr

inductive ValueImpl where
  | base | numeric | numericMask | yesNo | enum | assignedColour
  | custom (q : String)
  deriving DecidableEq, Repr

inductive StrImpl where
  | base | bitmap | deviceType | fadeTimeRate | fastFade | outputLevel
  | custom (q : String)
  deriving DecidableEq, Repr

inductive StatusImpl where
  | absent | bitmap | custom (q : String)
  deriving DecidableEq, Repr

inductive ErrorImpl where
  | absent | bitmap | queryStatus | custom (q : String)
  deriving DecidableEq, Repr

inductive GetattrImpl where
  | absent | bitmap | custom (q : String)
  deriving DecidableEq, Repr

inductive ExtraImpl where
  | fadeTime | fadeRate | primaryN | rgbwafChannels | controlType | emergencyMode
  | custom (q : String)
  deriving DecidableEq, Repr

structure RespClass where
  name : String
  module : String
  /-- names of the classes in the MRO, the class itself first, `object` left out -/
  mro : List String
  /-- `__init__` is `Response.__init__` and `raw_value` is `Response.raw_value` -/
  ctorBase : Bool
  value : ValueImpl
  str : StrImpl
  status : StatusImpl
  error : ErrorImpl
  getattr : GetattrImpl
  expected : Bool
  errorAcceptable : Bool
  /-- `bits`, least significant first; a falsy entry is `""` -/
  bits : List String
  /-- `_bit_properties` as computed by the metaclass, in insertion order -/
  bitProps : List (String × Nat)
  /-- members of `enumerator` (name, value), aliases included -/
  members : List (String × Nat)
  /-- every other property / function defined by the class or a base -/
  extras : List (String × ExtraImpl)
  /-- `_types` of `QueryDeviceTypeResponse` -/
  types : List (Nat × String)
  /-- number of command classes whose `response` is this class -/
  users : Nat
  deriving Repr

end DaliVerif.Resp
