import DaliVerif.Model.Py
import DaliVerif.Gen.Watch
/-!
# C16 — how each driver turns what the gateway reported into `send`'s result

Hand-written models of the status → response code of

* `dali/driver/hid.py`   `tridonic._send_raw` (the message loop, l.446-483),
  `hasseb._send_raw` (l.730-755),
* `dali/driver/serial.py` `DriverLubaRs232.send` / `DriverSCIRS232.send`
  (the answer wait, l.1081-1104 / l.1672-1696),
* `dali/driver/daliserver.py` `DaliServer.unpack_response`,
* `dali/driver/atxled.py` `SyncDaliHatDriver.send` + `extract`.

A command is only looked at through `CmdInfo` (does it have a response class —
identified by an opaque number —, is it send-twice); a response object is
`resp cls outcome` = `cls(None | BackwardFrame(b) | BackwardFrameError(b))`.
Same order of checks and same exception classes as the Python.
-/
namespace DaliVerif.Answer
open DaliVerif.Gen

/-- argument of a response object: `None`, `BackwardFrame(b)`, `BackwardFrameError(b)` -/
inductive Outcome where
  | silent
  | value (b : Nat)
  | framing (b : Nat)
  deriving DecidableEq, Repr, Inhabited

/-- what the drivers read of a command: `command.response` (class identity as
an opaque number, `none` when the attribute is `None`) and `command.sendtwice` -/
structure CmdInfo where
  resp : Option Nat
  twice : Bool
  deriving DecidableEq, Repr, Inhabited

/-- value returned by `send`: `None` or an instance `cls(outcome)` of response
class `cls`.  (`bare` = a `BackwardFrame(b)` not wrapped in a response, `text` =
a raw line of text: what the ATX hat driver returned for a non-query answered
`J…` / `X` before its repair; kept so that such a result can be written down.) -/
inductive Answer where
  | none
  | resp (cls : Nat) (o : Outcome)
  | bare (b : Nat)
  | text
  deriving DecidableEq, Repr, Inhabited

/-- `command.response(x)` when `command.response` is the class `cls`:
`Response.__init__` accepts `None` or a `BackwardFrame` -/
def mkResp (cls : Nat) (o : Outcome) : Answer := .resp cls o

/-! ## HID Tridonic DALI-USB -/

/-- one entry of the per-sequence-number message list: the string `"fail"`
queued by `_shutdown_device`, or a 64-byte report of which the loop reads the
type byte and the four frame bytes -/
inductive TMsg where
  | fail
  | rep (rtype f0 f1 f2 f3 : Nat)
  deriving DecidableEq, Repr, Inhabited

/-- the local variable `response` of the loop: `None`, `"no"`, a backward frame
or a framing-error frame -/
inductive TResp where
  | unset | no | back (b : Nat) | err
  deriving DecidableEq, Repr, Inhabited

/-- result of running the loop on the messages queued so far -/
inductive TRes where
  | done (a : PyRes Answer) (consumed : Nat)
  | blocked            -- `await event.wait()` with the list empty
  deriving DecidableEq, Repr, Inhabited

/-- `dali.frame.BackwardFrame(frame)` with the 4-byte string of the report:
`int.from_bytes(frame, 'big')` must fit 8 bits -/
def backOfBytes (f0 f1 f2 f3 : Nat) : PyRes Nat :=
  if f0 = 0 ∧ f1 = 0 ∧ f2 = 0 then
    (if f3 < 256 then .ok f3 else .error .ValueError)
  else .error .ValueError

/-- one turn of `while outstanding_transmissions or response is None` after a
report has been popped -/
def triStep (outst : Int) (r : TResp) (rtype f0 f1 f2 f3 : Nat) : PyRes (Int × TResp) :=
  if rtype = Watch.RESPONSE_FRAME_DALI16 ∨ rtype = Watch.RESPONSE_FRAME_DALI24 then
    .ok (outst - 1, r)
  else if rtype = Watch.RESPONSE_FRAME_DALI8 then
    match backOfBytes f0 f1 f2 f3 with
    | .ok b => .ok (outst, .back b)
    | .error e => .error e
  else if rtype = Watch.RESPONSE_INFO ∧ f3 = Watch.BUS_STATUS_FRAMING_ERROR then
    .ok (outst, .err)
  else if rtype = Watch.RESPONSE_NO_FRAME then
    .ok (outst, .no)
  else .ok (outst, r)

/-- after the loop: `if command.response: … return command.response(…)` else `None` -/
def triFinish (c : CmdInfo) (r : TResp) : Answer :=
  match c.resp with
  | Option.none => .none
  | some cls =>
    match r with
    | .no => mkResp cls .silent
    | .unset => mkResp cls .silent          -- not reachable: the loop ends with a response
    | .back b => mkResp cls (.value b)
    | .err => mkResp cls (.framing 255)

/-- the loop of `_send_raw` from l.446 on `msgs` = the messages that are (or
will be) in this command's list, in order -/
def triLoop (c : CmdInfo) (outst : Int) (r : TResp) (n : Nat) : List TMsg → TRes
  | [] => if outst ≠ 0 ∨ r = .unset then .blocked else .done (.ok (triFinish c r)) n
  | m :: ms =>
    if outst ≠ 0 ∨ r = .unset then
      match m with
      | .fail => .done (.error .CommunicationError) (n + 1)
      | .rep t f0 f1 f2 f3 =>
        match triStep outst r t f0 f1 f2 f3 with
        | .ok (o', r') => triLoop c o' r' (n + 1) ms
        | .error e => .done (.error e) (n + 1)
    else .done (.ok (triFinish c r)) n

def tridonicAnswer (c : CmdInfo) (msgs : List TMsg) : TRes :=
  triLoop c (if c.twice then 2 else 1) .unset 0 msgs

/-! ## HID hasseb -/

/-- what `_send_raw` finds in `self._response` when it wakes: the string
`"fail"` or a report (status byte, data byte) -/
inductive HRep where
  | fail
  | rep (status byte : Nat)
  deriving DecidableEq, Repr, Inhabited

/-- `hasseb._send_raw` from `response = None` on; `rep` is only looked at when
the command has a response class (otherwise the driver does not wait) -/
def hassebAnswer (c : CmdInfo) (rep : HRep) : PyRes Answer :=
  match c.resp with
  | Option.none => .ok .none
  | some cls =>
    match rep with
    | .fail => .error .CommunicationError
    | .rep st b =>
      if st = Watch.HASSEB_NO_ANSWER then .ok (mkResp cls .silent)
      else if st = Watch.HASSEB_OK then
        (if b < 256 then .ok (mkResp cls (.value b)) else .error .ValueError)
      else if st = Watch.HASSEB_INVALID_ANSWER then
        (if b < 256 then .ok (mkResp cls (.framing b)) else .error .ValueError)
      else .ok .none           -- "Unknown response code": `response` stays None

/-! ## Lunatone LUBA / SCI (serial) -/

/-- how the answer wait of `send` ends: `asyncio.TimeoutError` or an integer
taken from the raw-answer queue -/
inductive SWait where
  | timeout
  | got (b : Nat)
  deriving DecidableEq, Repr, Inhabited

/-- `DriverLubaRs232.send` after `send_dali_command` returned -/
def lubaAnswer (c : CmdInfo) (w : SWait) : PyRes Answer :=
  match c.resp with
  | Option.none => .ok .none                  -- `if msg.is_query:` not taken
  | some cls =>
    match w with
    | .timeout => .ok (mkResp cls .silent)    -- `response = msg.response(None)` … `break`
    | .got b => if b < 256 then .ok (mkResp cls (.value b)) else .error .ValueError

/-- `DriverSCIRS232.send`: the same text -/
def sciAnswer (c : CmdInfo) (w : SWait) : PyRes Answer := lubaAnswer c w

/-! ## daliserver -/

/-- `DaliServer.unpack_response(command, result)` on the four bytes
`ver, status, rval, pad` -/
def daliserverUnpack (c : CmdInfo) (_ver status rval _pad : Nat) : PyRes Answer :=
  match c.resp with
  | Option.none => .ok .none
  | some cls =>
    if status = 0 then .ok (mkResp cls .silent)
    else if status = 1 then .ok (mkResp cls (.value rval))
    else if status = 255 then .ok (mkResp cls (.framing 255))
    else .error .CommunicationError

/-! ## ATX LED DALI hat -/

/-- a line as `read_line()` returns it, reduced to what `send` looks at:
`""` (serial time-out), a line starting with `N`, a line `J<hex>` whose
hexadecimal value is `v` (`none` when `int(…, 16)` raises), a line starting
with `X` or `Z`, any other non-empty line.  `id` tells two lines' texts apart
(`last_resp == resp` compares the strings). -/
inductive ALine where
  | empty
  | n (id : Nat)
  | j (id : Nat) (v : Option Nat)
  | x
  | z
  | other
  deriving DecidableEq, Repr, Inhabited

/-- `extract(data)`: `J…` → `BackwardFrame(int(data[1:], 16))`, a `ValueError`
from either call is logged and `None` is returned; any other line → `None` -/
def atxExtract : ALine → Option Nat
  | .j _ (some v) => if v < 256 then some v else Option.none
  | _ => Option.none

/-- the value computed by the loop: `None`, a backward frame, or the raw line
(the `X` break leaves the string in `resp`) -/
inductive AVal where
  | none | back (b : Nat) | text
  deriving DecidableEq, Repr, Inhabited

def AVal.ofExtract : Option Nat → AVal
  | some b => .back b
  | Option.none => .none

/-- the `while i < REPS` loop.  `cmd[:3] not in ["hB1", …]` compares `bytes`
with `str` and is always true, so only the first branch exists; every resend
is `self.conn.write((cmd).encode("ascii"))` on a `bytes` object, which raises
`AttributeError` before `REPS` can grow, so at most five turns are taken.  After
an `X`/`Z` line the code reads on until an empty line; what it reads there is
discarded and the turn ends in `break` (`X`) or the resend (`Z`) either way. -/
def atxLoop (twice : Bool) : Nat → Option ALine → List ALine → PyRes AVal
  | 0, _, _ => .ok .none
  | fuel + 1, last, ls =>
    let (l, rest) := match ls with
      | [] => (ALine.empty, [])
      | l :: rest => (l, rest)
    match l with
    | .empty => atxLoop twice fuel last rest
    | .other => atxLoop twice fuel last rest
    | .x => .ok .text
    | .z => .error .AttributeError
    | l =>   -- an N or J line
      if twice then
        match last with
        | some p => if p = l then .ok (AVal.ofExtract (atxExtract l)) else .error .AttributeError
        | Option.none => atxLoop twice fuel (some l) rest
      else .ok (AVal.ofExtract (atxExtract l))

/-- `SyncDaliHatDriver.send` on the lines the hat sends back -/
def atxAnswer (c : CmdInfo) (lines : List ALine) : PyRes Answer :=
  match atxLoop c.twice 5 Option.none lines with
  | .error e => .error e
  | .ok v =>
    match c.resp with
    | some cls =>
      (match v with
       | .none => .ok (mkResp cls .silent)
       | .back b => .ok (mkResp cls (.value b))
       | .text => .error .TypeError)
    | Option.none => .ok .none      -- `return None` whatever the loop computed

end DaliVerif.Answer
