import DaliVerif.Model.Frame
/-!
# Model of `dali/address.py`

Address objects (`GearShort`, `DeviceGroup`, …) and instance-byte objects
(`InstanceNumber`, `Device`, `ReservedInstance`, …).  `from_frame` tries the
registered address classes in registration order (`Address._addrtypes`, a
regenerated table); each class's own `from_frame` / `add_to_frame` / `__eq__` /
`__str__` is mirrored below with the slices the Python uses.
-/
namespace DaliVerif

/-- the address classes, incl. the two abstract bases that are registered too -/
inductive AddrKind where
  | gearAbstract | deviceAbstract
  | gearBroadcast | deviceBroadcast | gearUnaddressed | deviceUnaddressed
  | gearGroup | deviceGroup | gearShort | deviceShort
  deriving DecidableEq, Repr, Inhabited

/-- an address object -/
inductive Addr where
  | gearBroadcast | deviceBroadcast | gearUnaddressed | deviceUnaddressed
  | gearGroup (g : Nat) | deviceGroup (g : Nat)
  | gearShort (a : Nat) | deviceShort (a : Nat)
  deriving DecidableEq, Repr, Inhabited

namespace Addr

def isGear : Addr → Bool
  | gearBroadcast | gearUnaddressed | gearGroup _ | gearShort _ => true
  | _ => false

/-- `required_frame_size` -/
def frameSize (a : Addr) : Nat := if a.isGear then 16 else 24

/-- constructor argument checks (`GearShort(address)` etc.): `ValueError` for a
non-int or out-of-range number -/
def mkNumbered (mk : Nat → Addr) (limit : Nat) (v : PyVal) : PyRes Addr :=
  match v.asInt? with
  | none => .error .ValueError
  | some i => if i < 0 || i > limit then .error .ValueError else .ok (mk i.toNat)

def mkGearShort := mkNumbered gearShort 63
def mkDeviceShort := mkNumbered deviceShort 63
def mkGearGroup := mkNumbered gearGroup 15
def mkDeviceGroup := mkNumbered deviceGroup 31

/-- the object invariant established by the constructors -/
def Valid : Addr → Prop
  | gearGroup g => g ≤ 15
  | deviceGroup g => g ≤ 31
  | gearShort a => a ≤ 63
  | deviceShort a => a ≤ 63
  | _ => True

instance : DecidablePred Valid := fun a => by
  cases a <;> simp only [Valid] <;> infer_instance

open Frame in
/-- one class's `from_frame` -/
def kindFromFrame (k : AddrKind) (f : Frame) : Option Addr :=
  let bit (i : Nat) : Bool := getBitRaw f.data i
  match k with
  | .gearAbstract | .deviceAbstract => none
  | .gearBroadcast =>
      if f.bits == 16 && getSliceRaw f.data 15 9 == 0x7F then some gearBroadcast else none
  | .deviceBroadcast =>
      if f.bits == 24 && bit 16 && getSliceRaw f.data 23 17 == 0x7F then some deviceBroadcast
      else none
  | .gearUnaddressed =>
      if f.bits == 16 && getSliceRaw f.data 15 9 == 0x7E then some gearUnaddressed else none
  | .deviceUnaddressed =>
      if f.bits == 24 && bit 16 && getSliceRaw f.data 23 17 == 0x7E then some deviceUnaddressed
      else none
  | .gearGroup =>
      if f.bits == 16 && getSliceRaw f.data 15 13 == 0x4 then some (gearGroup (getSliceRaw f.data 12 9))
      else none
  | .deviceGroup =>
      if f.bits == 24 && bit 16 && getSliceRaw f.data 23 22 == 0x2
      then some (deviceGroup (getSliceRaw f.data 21 17)) else none
  | .gearShort =>
      if f.bits == 16 && !bit 15 then some (gearShort (getSliceRaw f.data 14 9)) else none
  | .deviceShort =>
      if f.bits == 24 && bit 16 && !bit 23 then some (deviceShort (getSliceRaw f.data 22 17))
      else none

/-- `address.from_frame(f)`: first registered class that matches -/
def fromFrame (order : List AddrKind) (f : Frame) : Option Addr :=
  order.findSome? (fun k => kindFromFrame k f)

open Frame in
/-- `add_to_frame(f)`; on `IncompatibleFrame` no frame is returned (unchanged by type) -/
def addToFrame (a : Addr) (f : Frame) : PyRes Frame :=
  let set (hi lo v : Nat) (d : Nat) : Nat := setSliceRaw f.bits d hi lo v
  let clr (k : Nat) (d : Nat) : Nat := setBitRaw f.bits d k false
  if f.bits != a.frameSize then .error .IncompatibleFrame else
  .ok { f with data :=
    match a with
    | gearBroadcast => set 15 9 0x7F f.data
    | deviceBroadcast => set 23 17 0x7F f.data
    | gearUnaddressed => set 15 9 0x7E f.data
    | deviceUnaddressed => set 23 17 0x7E f.data
    | gearGroup g => set 12 9 g (set 15 13 0x4 f.data)
    | deviceGroup g => set 21 17 g (set 23 22 0x2 f.data)
    | gearShort s => set 14 9 s (clr 15 f.data)
    | deviceShort s => set 22 17 s (clr 23 f.data) }

/-- `__eq__` (mirrors the `isinstance` + number comparison) -/
def eq : Addr → Addr → Bool
  | gearBroadcast, gearBroadcast => true
  | deviceBroadcast, deviceBroadcast => true
  | gearUnaddressed, gearUnaddressed => true
  | deviceUnaddressed, deviceUnaddressed => true
  | gearGroup a, gearGroup b => a == b
  | deviceGroup a, deviceGroup b => a == b
  | gearShort a, gearShort b => a == b
  | deviceShort a, deviceShort b => a == b
  | _, _ => false

def render : Addr → String
  | gearBroadcast => "<broadcast (control gear)>"
  | deviceBroadcast => "<broadcast (control device)>"
  | gearUnaddressed => "<broadcast unaddressed (control gear)>"
  | deviceUnaddressed => "<broadcast unaddressed (control device)>"
  | gearGroup g => s!"<group (control gear) {g}>"
  | deviceGroup g => s!"<group (control device) {g}>"
  | gearShort a => s!"<address (control gear) {a}>"
  | deviceShort a => s!"<address (control device) {a}>"

end Addr

/-- an instance-byte object -/
inductive Inst where
  | number (n : Nat) | group (n : Nat) | type (n : Nat)
  | featNumber (n : Nat) | featGroup (n : Nat) | featType (n : Nat)
  | featBroadcast | broadcast | featDevice | device
  | reserved (b : Nat)
  deriving DecidableEq, Repr, Inhabited

namespace Inst

def Valid : Inst → Prop
  | number n | group n | type n | featNumber n | featGroup n | featType n => n ≤ 31
  | reserved b => b ≤ 255
  | _ => True

instance : DecidablePred Valid := fun a => by
  cases a <;> simp only [Valid] <;> infer_instance

/-- the byte written by `add_to_frame`: `_flags | _value` / `_val` / `_value` -/
def byte : Inst → Nat
  | number n => 0x00 ||| n
  | group n => 0x80 ||| n
  | type n => 0xC0 ||| n
  | featNumber n => 0x20 ||| n
  | featGroup n => 0xA0 ||| n
  | featType n => 0x60 ||| n
  | featBroadcast => 0xFD
  | broadcast => 0xFF
  | featDevice => 0xFC
  | device => 0xFE
  | reserved b => b

open Frame in
/-- `instance_from_frame(f)`; `none` for a frame that is not 24 bits long -/
def fromFrame (f : Frame) : Option Inst :=
  if f.bits != 24 then none else
  let flags := getSliceRaw f.data 15 13
  let p := getSliceRaw f.data 12 8
  let b := getSliceRaw f.data 15 8
  some (
    if flags == 0 then number p
    else if flags == 4 then group p
    else if flags == 6 then type p
    else if flags == 1 then featNumber p
    else if flags == 5 then featGroup p
    else if flags == 3 then featType p
    else if b == 0xFD then featBroadcast
    else if b == 0xFF then broadcast
    else if b == 0xFC then featDevice
    else if b == 0xFE then device
    else reserved b)

open Frame in
/-- `add_to_frame(f)`; the slice write raises `ValueError` if the byte does not fit -/
def addToFrame (i : Inst) (f : Frame) : PyRes Frame :=
  if f.bits != 24 then .error .IncompatibleFrame
  else f.setItem (.slice (.int 15) (.int 8) .none) (.int i.byte)

/-- constructor checks of the addressed instance kinds -/
def mkNumbered (mk : Nat → Inst) (v : PyVal) : PyRes Inst :=
  match v.asInt? with
  | none => .error .ValueError
  | some i => if i < 0 || i > 31 then .error .ValueError else .ok (mk i.toNat)

/-- `Instance.__eq__`: same class and equal `_value`.  The four parameterless
kinds compare by class alone (after the repair of `Instance.__eq__`, see
known_findings.txt F4). -/
def eq (a b : Inst) : Bool := a == b

def render : Inst → String
  | number n => s!"InstanceNumber({n})"
  | group n => s!"InstanceGroup({n})"
  | type n => s!"InstanceType({n})"
  | featNumber n => s!"FeatureInstanceNumber({n})"
  | featGroup n => s!"FeatureInstanceGroup({n})"
  | featType n => s!"FeatureInstanceType({n})"
  | featBroadcast => "FeatureInstanceBroadcast()"
  | broadcast => "InstanceBroadcast()"
  | featDevice => "FeatureDevice()"
  | device => "Device()"
  | reserved b =>
      let hex (n : Nat) : Char := if n < 10 then Char.ofNat (48 + n) else Char.ofNat (87 + n)
      s!"ReservedInstance({String.mk [hex (b / 16 % 16), hex (b % 16)]})"

end Inst
end DaliVerif
