import DaliVerif.Model.Py
/-!
# Command sequences (Python generators) as resumption programs

A generator of `dali/sequences.py` / `dali/gear/sequences.py` yields commands
and receives responses.  It is modelled as a value of `Prog α`:

* `send c k`   — `r = yield c` ; continue with `k r`
* `note n k`   — `yield progress(...)` / `yield sleep(...)` (the caller sends `None` back)
* `done a`     — `return a`
* `fail e`     — `raise e` (exception *class* only)
* `spin`       — the model's loop budget ran out (the Python loop would go on);
                 never a Python outcome — the theorems show where it is unreachable.

`Prog.run step s p` runs a program against any environment
`step : σ → Cmd → Resp × σ` (the specification bus of `Spec/GearBus.lean`, or an
adversarial answer stream) and records the commands sent.  The lock-step
driver (`Drivers/GearSeqDrv.lean`) walks the same tree one command at a time.

`Cmd` is the small set of command kinds these sequences yield, with the frame
each real object carries (`Cmd.frame`, `Cmd.cls`, `Cmd.devicetype`).
-/
namespace DaliVerif.GearSeq

/-! ## Responses, addresses, commands -/

/-- What came back on the bus: silence, a clean backward frame, a framing error. -/
inductive Resp where
  | none
  | byte (v : Nat)
  | err
  deriving DecidableEq, Repr, Inhabited

namespace Resp
/-- `YesNoResponse.value` : `self._value is not None` -/
def isYes : Resp → Bool
  | .none => false
  | _ => true
/-- `raw_value.error` (only meaningful when not `none`) -/
def isErr : Resp → Bool
  | .err => true
  | _ => false
end Resp

/-- 16-bit gear address forms (`dali.address.GearShort/GearGroup/GearBroadcast/GearBroadcastUnaddressed`). -/
inductive Addr where
  | short (n : Nat)
  | group (n : Nat)
  | broadcast
  | unaddressed
  deriving DecidableEq, Repr, Inhabited

/-- the address byte `YAAAAAAS` with S = 1 (command follows) -/
def Addr.byte : Addr → Nat
  | .short n => 2 * n + 1
  | .group n => 0x80 + 2 * n + 1
  | .broadcast => 0xFF
  | .unaddressed => 0xFD

inductive Cmd where
  | dtr0 (v : Nat) | dtr1 (v : Nat) | dtr2 (v : Nat)
  | enableDT (n : Nat)
  | terminate
  | initialise (a : Nat)          -- the raw address byte: 0x00 all, 0xFF unaddressed, 0AAAAAA1
  | randomise | compare | withdraw
  | searchH (v : Nat) | searchM (v : Nat) | searchL (v : Nat)
  | programShort (a : Nat)        -- short address 0..63 (frame carries 2a+1)
  | verifyShort (a : Nat)
  | setShortAddress (a : Addr)
  | queryGearPresent (a : Addr)
  | queryDeviceType (a : Addr) | queryNextDeviceType (a : Addr)
  | queryGroups07 (a : Addr) | queryGroups815 (a : Addr)
  | addToGroup (a : Addr) (g : Nat) | removeFromGroup (a : Addr) (g : Nat)
  | queryActualLevel (a : Addr) | queryContentDTR0 (a : Addr)
  | setTempTc (a : Addr) | activate (a : Addr) | storeTcLimit (a : Addr)
  | queryColourValue (a : Addr)
  deriving DecidableEq, Repr, Inhabited

namespace Cmd

/-- `cmd.frame.as_integer` -/
def frame : Cmd → Nat
  | dtr0 v => 0xA300 + v | dtr1 v => 0xC300 + v | dtr2 v => 0xC500 + v
  | enableDT n => 0xC100 + n
  | terminate => 0xA100
  | initialise a => 0xA500 + a
  | randomise => 0xA700 | compare => 0xA900 | withdraw => 0xAB00
  | searchH v => 0xB100 + v | searchM v => 0xB300 + v | searchL v => 0xB500 + v
  | programShort a => 0xB700 + (2 * a + 1)
  | verifyShort a => 0xB900 + (2 * a + 1)
  | setShortAddress a => a.byte * 256 + 0x80
  | queryGearPresent a => a.byte * 256 + 0x91
  | queryDeviceType a => a.byte * 256 + 0x99
  | queryNextDeviceType a => a.byte * 256 + 0xA7
  | queryGroups07 a => a.byte * 256 + 0xC0
  | queryGroups815 a => a.byte * 256 + 0xC1
  | addToGroup a g => a.byte * 256 + 0x60 + g
  | removeFromGroup a g => a.byte * 256 + 0x70 + g
  | queryActualLevel a => a.byte * 256 + 0xA0
  | queryContentDTR0 a => a.byte * 256 + 0x98
  | setTempTc a => a.byte * 256 + 231
  | activate a => a.byte * 256 + 226
  | storeTcLimit a => a.byte * 256 + 242
  | queryColourValue a => a.byte * 256 + 250

/-- `type(cmd).__name__` -/
def cls : Cmd → String
  | dtr0 _ => "DTR0" | dtr1 _ => "DTR1" | dtr2 _ => "DTR2"
  | enableDT _ => "EnableDeviceType"
  | terminate => "Terminate" | initialise _ => "Initialise"
  | randomise => "Randomise" | compare => "Compare" | withdraw => "Withdraw"
  | searchH _ => "SearchaddrH" | searchM _ => "SearchaddrM" | searchL _ => "SearchaddrL"
  | programShort _ => "ProgramShortAddress" | verifyShort _ => "VerifyShortAddress"
  | setShortAddress _ => "SetShortAddress"
  | queryGearPresent _ => "QueryControlGearPresent"
  | queryDeviceType _ => "QueryDeviceType" | queryNextDeviceType _ => "QueryNextDeviceType"
  | queryGroups07 _ => "QueryGroupsZeroToSeven" | queryGroups815 _ => "QueryGroupsEightToFifteen"
  | addToGroup _ _ => "AddToGroup" | removeFromGroup _ _ => "RemoveFromGroup"
  | queryActualLevel _ => "QueryActualLevel" | queryContentDTR0 _ => "QueryContentDTR0"
  | setTempTc _ => "SetTemporaryColourTemperature" | activate _ => "Activate"
  | storeTcLimit _ => "StoreColourTemperatureTcLimit"
  | queryColourValue _ => "QueryColourValue"

/-- `cmd.devicetype` : 8 for the part-209 application extended commands -/
def devicetype : Cmd → Nat
  | setTempTc _ | activate _ | storeTcLimit _ | queryColourValue _ => 8
  | _ => 0

end Cmd

/-- kinds of non-command objects a sequence yields -/
inductive Note where
  | progress | sleep
  deriving DecidableEq, Repr, Inhabited

/-! ## Programs -/

inductive Prog (α : Type) : Type where
  | done (a : α)
  | fail (e : PyErr)
  | spin
  | send (c : Cmd) (k : Resp → Prog α)
  | note (n : Note) (k : Prog α)

namespace Prog

/-- `yield from p` followed by `f` -/
def bind {α β : Type} : Prog α → (α → Prog β) → Prog β
  | done a, f => f a
  | fail e, _ => fail e
  | spin, _ => spin
  | send c k, f => send c (fun r => (k r).bind f)
  | note n k, f => note n (k.bind f)

instance : Monad Prog where
  pure := done
  bind := bind

/-- send a command whose response is not used -/
def tell {α : Type} (c : Cmd) (k : Prog α) : Prog α := send c (fun _ => k)

end Prog

/-- how a run ended -/
inductive Outcome (α : Type) where
  | ret (a : α)
  | raised (e : PyErr)
  | outOfFuel
  deriving DecidableEq, Repr, Inhabited

structure Out (σ α : Type) where
  res : Outcome α
  st : σ
  trace : List Cmd

/-- run a program against an environment, recording the commands sent -/
def Prog.run {σ α : Type} (step : σ → Cmd → Resp × σ) : Prog α → σ → Out σ α
  | .done a, s => ⟨.ret a, s, []⟩
  | .fail e, s => ⟨.raised e, s, []⟩
  | .spin, s => ⟨.outOfFuel, s, []⟩
  | .send c k, s =>
      let o := Prog.run step (k (step s c).1) (step s c).2
      ⟨o.res, o.st, c :: o.trace⟩
  | .note _ k, s => Prog.run step k s

/-! ## Destinations as the caller may pass them -/

/-- a destination argument: an address object, or a plain `int` -/
inductive Dest where
  | addr (a : Addr)
  | int (i : Int)
  deriving DecidableEq, Repr, Inhabited

/-- `_check_destination` / `GearShort(int)` : an `int` becomes a short address or `ValueError` -/
def Dest.resolve : Dest → PyRes Addr
  | .addr a => .ok a
  | .int i => if 0 ≤ i ∧ i ≤ 63 then .ok (.short i.toNat) else .error .ValueError

/-- `isinstance(addr, Short) or isinstance(addr, int)` -/
def Dest.isShortOrInt : Dest → Bool
  | .addr (.short _) => true
  | .int _ => true
  | _ => false

/-- build a command for a destination; the constructor may raise -/
def withDest {α : Type} (d : Dest) (k : Addr → Prog α) : Prog α :=
  match d.resolve with
  | .ok a => k a
  | .error e => .fail e

/-! ## `dali/sequences.py` : QueryDeviceTypes (as repaired), QueryGroups, SetGroups -/

/-- the `while True` loop of `QueryDeviceTypes`; `next = last_seen + 1` is the least
device type still acceptable; the budget `fuel` is never exhausted when it starts at
`257 - next` (theorem `qdt_adversarial`). -/
def qdtLoop (a : Addr) : Nat → Nat → List Nat → Prog (List Nat)
  | 0, _, _ => .spin
  | fuel + 1, next, result =>
    .send (.queryNextDeviceType a) fun r =>
      match r with
      | .none => .fail .DALISequenceError
      | .err => .fail .DALISequenceError
      | .byte v =>
        if v = 254 then
          (if result.isEmpty then .fail .DALISequenceError else .done result)
        else if v < next then .fail .DALISequenceError
        else qdtLoop a fuel (v + 1) (result ++ [v])

def queryDeviceTypes (d : Dest) : Prog (List Nat) :=
  withDest d fun a =>
    .send (.queryDeviceType a) fun r =>
      match r with
      | .none => .fail .DALISequenceError
      | .err => .fail .DALISequenceError
      | .byte v =>
        if v < 254 then .done [v]
        else if v = 254 then .done []
        else if v = 255 then qdtLoop a 257 0 []
        else .fail .AssertionError

/-- members of a 16-bit set given as a mask, ascending -/
def bitsOf (g : Nat) : List Nat := (List.range 16).filter (fun i => g.testBit i)

def queryGroups (d : Dest) : Prog (List Nat) :=
  withDest d fun a =>
    .send (.queryGroups07 a) fun g0 =>
      match g0 with
      | .none => .fail .DALISequenceError
      | .err => .fail .DALISequenceError
      | .byte x =>
        .send (.queryGroups815 a) fun g1 =>
          match g1 with
          | .none => .fail .DALISequenceError
          | .err => .fail .DALISequenceError
          | .byte y => .done (bitsOf (y * 256 + x))

/-- `AddToGroup(addr, i)` / `RemoveFromGroup(addr, i)` : the constructor checks `0 ≤ i ≤ 15` -/
def groupCmd {α : Type} (add : Bool) (a : Addr) (i : Nat) (k : Prog α) : Prog α :=
  if i < 16 then .tell (if add then .addToGroup a i else .removeFromGroup a i) k
  else .fail .ValueError

def groupCmds {α : Type} (add : Bool) (a : Addr) : List Nat → Prog α → Prog α
  | [], k => k
  | i :: is, k => groupCmd add a i (groupCmds add a is k)

/-- order in which the full rewrite visits the sixteen groups (as repaired: a group
destination's own group comes last) -/
def groupOrder : Addr → List Nat
  | .group g => (List.range 16).erase g ++ [g]
  | _ => List.range 16

/-- `SetGroups(addr, groups)`.  `groups` is the requested set (ascending list);
`ord` is the iteration order Python's `set` happens to use for a given set
(any permutation — the theorems quantify over it). -/
def setGroups (d : Dest) (groups : List Nat) (ord : List Nat → List Nat) : Prog Unit :=
  if d.isShortOrInt then
    (queryGroups d).bind fun existing =>
      withDest d fun a =>
        groupCmds true a (ord (groups.filter (fun i => !existing.contains i)))
          (groupCmds false a (ord (existing.filter (fun i => !groups.contains i))) (.done ()))
  else
    withDest d fun a =>
      (groupOrder a).foldr
        (fun i k => groupCmd (groups.contains i) a i k) (.done ())

/-! ## `dali/gear/sequences.py` : DT8 colour sequences -/

/-- `tc_mired.to_bytes(length=2, byteorder="little")` for the argument kinds a caller may pass -/
def tcBytes : PyVal → PyRes (Nat × Nat)
  | .int (.ofNat n) => if n < 65536 then .ok (n % 256, n / 256) else .error .OverflowError
  | .int (.negSucc _) => .error .OverflowError
  | .bool b => .ok (if b then 1 else 0, 0)
  | _ => .error .AttributeError

/-- `DTRn(v)` : the special-command constructor checks `0 ≤ v ≤ 255` -/
def dtrArg : PyVal → PyRes Nat
  | .int (.ofNat n) => if n ≤ 255 then .ok n else .error .ValueError
  | .int (.negSucc _) => .error .ValueError
  | .bool b => .ok (if b then 1 else 0)
  | _ => .error .ValueError

def setTc (d : Dest) (tc : PyVal) : Prog Unit :=
  withDest d fun a =>
    match tcBytes tc with
    | .error e => .fail e
    | .ok (lo, hi) =>
      .tell (.dtr0 lo) <| .tell (.dtr1 hi) <| .tell (.setTempTc a) <| .tell (.activate a) <| .done ()

def setTcLimit (d : Dest) (limit : PyVal) (tc : PyVal) : Prog Unit :=
  withDest d fun a =>
    match tcBytes tc with
    | .error e => .fail e
    | .ok (lo, hi) =>
      .tell (.dtr0 lo) <| .tell (.dtr1 hi) <|
        match dtrArg limit with
        | .error e => .fail e
        | .ok w => .tell (.dtr2 w) <| .tell (.storeTcLimit a) <| .done ()

/-- `QueryDT8ColourValue(address, query)`; `query = none` stands for an argument that is
not a `QueryColourValueDTR` member, `some v` for the member with value `v`. -/
def queryColour (d : Dest) (query : Option Nat) : Prog (Option Nat) :=
  withDest d fun a =>
    match query with
    | .none => .fail .TypeError
    | .some q =>
      .tell (.queryActualLevel a) <| .tell (.dtr0 q) <|
      .send (.queryColourValue a) fun msb =>
      .send (.queryContentDTR0 a) fun lsb =>
        match msb, lsb with
        | .byte m, .byte l => if m = 255 then .done .none else .done (some (l + 256 * m))
        | _, _ => .done .none

/-! ## `dali/sequences.py` : `_find_next`, `Commissioning` -/

inductive FNRes where
  | none | clash | found (m : Nat)
  deriving DecidableEq, Repr, Inhabited

/-- `_find_next(low, high)`; Python recursion becomes recursion on a depth budget
(25 levels cover the 24-bit interval). -/
def findNext : Nat → Nat → Nat → Prog FNRes
  | 0, _, _ => .spin
  | fuel + 1, low, high =>
    .tell (.searchH ((high >>> 16) &&& 0xff)) <|
    .tell (.searchM ((high >>> 8) &&& 0xff)) <|
    .tell (.searchL (high &&& 0xff)) <|
    .send .compare fun r =>
      if low = high then
        (if r.isYes then (if r.isErr then .done .clash else .done (.found low)) else .done .none)
      else if r.isYes then
        (findNext fuel low ((low + high) / 2)).bind fun res =>
          match res with
          | .none => findNext fuel ((low + high) / 2 + 1) high
          | res => .done res
      else .done .none

def HIGH : Nat := 0xffffff

/-- how the inner `while low is not None` loop was left -/
inductive InnerRes where
  | clash (avail : List Nat) (handed : List (Nat × Nat))
  | finished (avail : List Nat) (handed : List (Nat × Nat))
  deriving Repr, Inhabited

/-- the inner loop.  `handed` is a ghost log: (random address found, short address popped). -/
def inner (dry : Bool) : Nat → Nat → List Nat → List (Nat × Nat) → Prog InnerRes
  | 0, _, _, _ => .spin
  | fuel + 1, low, avail, handed =>
    .note .progress <|
    (findNext 25 low HIGH).bind fun res =>
      match res with
      | .clash => .note .progress <| .done (.clash avail handed)
      | .none => .done (.finished avail handed)
      | .found m =>
        .note .progress <|
        let rest : List Nat → List (Nat × Nat) → Prog InnerRes := fun avail' handed' =>
          .tell .withdraw <|
            if m < HIGH then inner dry fuel (m + 1) avail' handed'
            else .done (.finished avail' handed')
        match avail with
        | new :: avail' =>
          if dry then .note .progress <| rest avail' (handed ++ [(m, new)])
          else
            .note .progress <|
            .tell (.programShort new) <|
            .send (.verifyShort new) fun r =>
              if r.isYes then rest avail' (handed ++ [(m, new)])
              else .fail .ProgramShortAddressFailure
        | [] => .note .progress <| rest [] handed

/-- the outer `while not finished` loop; `rounds` bounds the number of RANDOMISE rounds
the model follows (the Python loop has no bound). -/
def outer (dry : Bool) : Nat → List Nat → List (Nat × Nat) → Prog (List (Nat × Nat))
  | 0, _, _ => .spin
  | rounds + 1, avail, handed =>
    .tell .randomise <| .note .sleep <|
    (inner dry (HIGH + 2) 0 avail handed).bind fun res =>
      match res with
      | .clash avail' handed' => outer dry rounds avail' handed'
      | .finished _ handed' => .done handed'

/-- the `for a in range(0, 64)` discovery of addresses in use -/
def discover : List Nat → List Nat → (List Nat → Prog α) → Prog α
  | [], avail, k => k avail
  | a :: as, avail, k =>
    if avail.contains a then
      .send (.queryGearPresent (.short a)) fun r =>
        discover as (if r.isYes then avail.erase a else avail) k
    else discover as avail k

/-- `Commissioning(available_addresses, readdress, dry_run)`; returns the ghost log of
(random address, short address) pairs handed out.  `avail = none` is the default argument. -/
def commissioning (rounds : Nat) (avail : Option (List Nat)) (readdress dry : Bool) :
    Prog (List (Nat × Nat)) :=
  let avail0 := avail.getD (List.range 64)
  let body : List Nat → Prog (List (Nat × Nat)) := fun av =>
    .tell .terminate <|
    .tell (.initialise (if readdress then 0x00 else 0xFF)) <|
    (outer dry rounds av []).bind fun handed =>
      .tell .terminate <| .note .progress <| .done handed
  if readdress then
    if dry then .note .progress <| body avail0
    else .tell (.dtr0 255) <| .tell (.setShortAddress .broadcast) <| body avail0
  else
    discover (List.range 64) avail0 fun av => .note .progress <| body av

end DaliVerif.GearSeq
