import DaliVerif.Model.Answer
/-!
# C20 — the Tridonic bus watcher, the serial receivers' device-type memory,
and the subscriber registries

Hand-written model of `dali/driver/hid.py` `tridonic._bus_watch` (l.485-625):
one turn of its `while True` loop is `step`.  A forward frame is abstract —
`Fwd` (width and bits) — and the command decoder `dali.command.from_frame`
is a parameter `dec : Fwd → devicetype → CInfo` giving the three things the
watcher reads of the decoded command: `sendtwice`, `response` (class id) and
whether it is `EnableDeviceType(n)`.

Also: `serialStep` (`_process_luba_event` / `_process_dali_frame` of
`dali/driver/serial.py`, the part handling an observed 16/24-bit frame:
`_prev_rx_enable_dt` and `distribute`), and `Reg` — the `_callback` registry of
hid.py and `DistributorQueue` of serial.py.
-/
namespace DaliVerif.BusWatch
open DaliVerif.Answer (Outcome)

/-- a forward frame: width and data bits -/
structure Fwd where
  bits : Nat
  data : Nat
  deriving DecidableEq, Repr, Inhabited

/-- what the watcher reads of a decoded command -/
structure CInfo where
  twice : Bool
  resp : Option Nat
  edt : Option Nat       -- `some n` iff `isinstance(command, EnableDeviceType)` with `param = n`
  deriving DecidableEq, Repr, Inhabited

/-- `dali.command.from_frame(frame, devicetype=…)`, abstractly -/
abbrev Decode := Fwd → Nat → CInfo

/-- a decoded command: the frame, the device type it was decoded under, and the flags -/
structure Cmd where
  frame : Fwd
  dt : Nat
  info : CInfo
  deriving DecidableEq, Repr, Inhabited

def decode (dec : Decode) (f : Fwd) (dt : Nat) : Cmd := ⟨f, dt, dec f dt⟩

/-- a gateway packet as the watcher classifies it (l.519-537): forward frame
of 16 / 24 bits, backward frame, framing error, "no frame", anything it
ignores (`continue`) -/
inductive Pkt where
  | fwd (f : Fwd)
  | back (b : Nat)
  | backErr
  | noFrame
  | other
  deriving DecidableEq, Repr, Inhabited

/-- why the loop woke up: a packet was queued, or the 0.2 s wait ran out -/
inductive WatchEvent where
  | pkt (p : Pkt)
  | timeout
  deriving DecidableEq, Repr, Inhabited

/-- arguments of one `bus_traffic._invoke(command, response, error)`:
`resp = none` is `None`, `some o` is `command.response(o)` -/
structure Report where
  cmd : Cmd
  resp : Option Outcome
  err : Bool
  deriving DecidableEq, Repr, Inhabited

/-- the two local variables of `_bus_watch` -/
structure WatchState where
  current : Option Cmd
  devicetype : Nat
  deriving DecidableEq, Repr, Inhabited

def WatchState.init : WatchState := ⟨none, 0⟩

/-- classification of a raw report (origin byte, type byte, frame bytes):
`none` = the frame constructor raises (`ValueError`: the four bytes do not fit
the width), which ends the watch task -/
def classify (origin rtype f0 f1 f2 f3 : Nat) : Option Pkt :=
  open DaliVerif.Gen in
  if ¬ (origin = Watch.MODE_OBSERVE ∨ origin = Watch.MODE_RESPONSE) then some .other
  else if rtype = Watch.RESPONSE_FRAME_DALI16 then
    (if f0 = 0 ∧ f1 = 0 then some (.fwd ⟨16, f2 * 256 + f3⟩) else none)
  else if rtype = Watch.RESPONSE_FRAME_DALI24 then
    (if f0 = 0 then some (.fwd ⟨24, (f1 * 256 + f2) * 256 + f3⟩) else none)
  else if rtype = Watch.RESPONSE_FRAME_DALI8 then
    (if f0 = 0 ∧ f1 = 0 ∧ f2 = 0 then some (.back f3) else none)
  else if rtype = Watch.RESPONSE_NO_FRAME then some .noFrame
  else if rtype = Watch.RESPONSE_INFO ∧ f3 = Watch.BUS_STATUS_FRAMING_ERROR then some .backErr
  else some .other

/-- device type remembered after a command: `devicetype = 0`, then
`if isinstance(command, EnableDeviceType): devicetype = command.param` -/
def dtAfter (c : Cmd) : Nat :=
  match c.info.edt with
  | some n => n
  | none => 0

/-- does the watcher have to wait for more (`command.sendtwice or command.response`) -/
def needsMore (c : Cmd) : Bool := c.info.twice || c.info.resp.isSome

/-- l.603-625: no current command, possibly a frame to process -/
def fresh (dec : Decode) (dt : Nat) : Pkt → WatchState × List Report
  | .fwd f =>
    let c := decode dec f dt
    if needsMore c then (⟨some c, dtAfter c⟩, [])
    else (⟨none, dtAfter c⟩, [⟨c, none, false⟩])
  | _ => (⟨none, dt⟩, [])

/-- one turn of the loop -/
def step (dec : Decode) (s : WatchState) (e : WatchEvent) : WatchState × List Report :=
  match e with
  | .pkt .other => (s, [])
  | .timeout =>
    match s.current with
    | none => (s, [])
    | some c =>
      if c.info.twice then (⟨none, s.devicetype⟩, [⟨c, none, true⟩])
      else if c.info.resp.isSome then (⟨none, s.devicetype⟩, [⟨c, some .silent, false⟩])
      else (⟨none, s.devicetype⟩, [])        -- not reachable (`assert current_command == None`)
  | .pkt p =>
    match s.current with
    | none => fresh dec s.devicetype p
    | some c =>
      if c.info.twice then
        match p with
        | .fwd f =>
          if c.frame = f then (⟨none, s.devicetype⟩, [⟨c, none, false⟩])
          else
            let r := fresh dec s.devicetype (.fwd f)
            (r.1, ⟨c, none, true⟩ :: r.2)
        | _ => (⟨none, s.devicetype⟩, [⟨c, none, true⟩])   -- backward frame / framing error / no frame
      else if c.info.resp.isSome then
        match p with
        | .fwd f =>
          let r := fresh dec s.devicetype (.fwd f)
          (r.1, ⟨c, some .silent, false⟩ :: r.2)
        | .back b => (⟨none, s.devicetype⟩, [⟨c, some (.value b), false⟩])
        | .backErr => (⟨none, s.devicetype⟩, [⟨c, some (.framing 255), false⟩])
        | _ => (⟨none, s.devicetype⟩, [⟨c, some .silent, false⟩])
      else (⟨none, s.devicetype⟩, [])        -- not reachable

/-- the loop over a list of wake-ups: final state and every report, in order -/
def run (dec : Decode) : WatchState → List WatchEvent → WatchState × List Report
  | s, [] => (s, [])
  | s, e :: es =>
    let r := step dec s e
    let r' := run dec r.1 es
    (r'.1, r.2 ++ r'.2)

/-! ## serial receivers: observed 16/24-bit frame -/

/-- `_process_luba_event` (event type 2, ≥ 2 data bytes) and
`_process_dali_frame` (≥ 2 bytes): decode with the remembered device type,
remember the new one, distribute the command -/
def serialStep (dec : Decode) (dt : Nat) (f : Fwd) : Nat × Cmd :=
  let c := decode dec f dt
  (dtAfter c, c)

def serialRun (dec : Decode) : Nat → List Fwd → List Cmd
  | _, [] => []
  | dt, f :: fs =>
    let r := serialStep dec dt f
    r.2 :: serialRun dec r.1 fs

/-! ## subscriber registries (`hid._callback`, `serial.DistributorQueue`) -/

inductive RegEv (α : Type) where
  | sub (i : Nat)        -- `register(func)` / `DistributorQueue(parent)`
  | unsub (i : Nat)      -- `handle.unregister()` / `parent.del_handler(child)`
  | emit (x : α)         -- `_invoke(*args)` / `distribute(item)`
  deriving Repr

/-- subscribers in registration order (a `dict`), and everything delivered so
far as (subscriber, item) in delivery order -/
structure Reg (α : Type) where
  subs : List Nat
  delivered : List (Nat × α)
  deriving Repr

def Reg.init {α} : Reg α := ⟨[], []⟩

def Reg.step {α} (r : Reg α) : RegEv α → Reg α
  | .sub i => if i ∈ r.subs then r else { r with subs := r.subs ++ [i] }
  | .unsub i => { r with subs := r.subs.filter (· ≠ i) }
  | .emit x => { r with delivered := r.delivered ++ r.subs.map (fun i => (i, x)) }

def Reg.run {α} (r : Reg α) (evs : List (RegEv α)) : Reg α := evs.foldl Reg.step r

/-- what subscriber `i` has received, in order -/
def Reg.received {α} (r : Reg α) (i : Nat) : List α :=
  (r.delivered.filter (fun p => p.1 == i)).map (·.2)

/-! ## the handler table with its keys (`serial.DistributorQueue._handlers`)

`Reg` above knows subscribers by identity.  The code keeps them in a `dict`
under a key — `hash(handler)`, which for these objects is derived from `id()` —
`add_handler`: `self._handlers[hash(handler)] = handler`, `del_handler`:
`self._handlers.pop(hash(handler), None)`, `distribute`: every value of the
dict in insertion order.  `KReg` makes the keys explicit: `key i` is the key of
subscriber object `i`. -/

/-- an insertion-ordered `dict` key ↦ subscriber -/
abbrev HTable := List (Nat × Nat)

/-- `d[k] = v`: an existing key keeps its place, a new one goes to the end -/
def HTable.set (d : HTable) (k v : Nat) : HTable :=
  if d.any (·.1 == k) then d.map (fun p => if p.1 == k then (k, v) else p) else d ++ [(k, v)]

/-- `d.pop(k, None)` -/
def HTable.pop (d : HTable) (k : Nat) : HTable := d.filter (·.1 != k)

structure KReg (α : Type) where
  table : HTable
  delivered : List (Nat × α)
  deriving Repr

def KReg.init {α} : KReg α := ⟨[], []⟩

def KReg.step {α} (key : Nat → Nat) (r : KReg α) : RegEv α → KReg α
  | .sub i => { r with table := r.table.set (key i) i }
  | .unsub i => { r with table := r.table.pop (key i) }
  | .emit x => { r with delivered := r.delivered ++ r.table.map (fun p => (p.2, x)) }

def KReg.run {α} (key : Nat → Nat) (r : KReg α) (evs : List (RegEv α)) : KReg α :=
  evs.foldl (KReg.step key) r

/-- the subscribers `distribute` hands an item to, in order -/
def KReg.subs {α} (r : KReg α) : List Nat := r.table.map (·.2)

/-- the keys in use -/
def KReg.keys {α} (r : KReg α) : List Nat := r.table.map (·.1)

def KReg.received {α} (r : KReg α) (i : Nat) : List α :=
  (r.delivered.filter (fun p => p.1 == i)).map (·.2)

end DaliVerif.BusWatch
