/-!
# Connection / reconnect state machine of `dali.driver.hid.hid`

Mirrors `connect`, `_reconnect`, `disconnect(reconnect=True)` and the handshake
progress of the subclasses (`hsSteps` = number of gateway reports needed after
opening before `connected` is set: 2 for `tridonic` (version, serial), 0 for
`hasseb`).  The environment decides whether the device is `present` (an open
attempt succeeds) and when the reconnect timer fires.

This is the code *after* the repair of F9 (`_reconnect` reports `failed`); the
function `reconnectOld` keeps the behaviour of the unchanged tree for the
witness in `Props/C17.lean`.
-/
namespace DaliVerif.Conn

inductive Status | connected | disconnected | failed
  deriving DecidableEq, Repr, Inhabited

def Status.name : Status → String
  | .connected => "connected" | .disconnected => "disconnected" | .failed => "failed"

structure Conn where
  /-- `reconnect_limit` (`none` = retry for ever) -/
  limit : Option Nat
  /-- reports needed after `os.open` before `connected.set()` -/
  hsSteps : Nat
  /-- environment: the device node exists and opens -/
  present : Bool := true
  /-- `self._f is not None` -/
  fd : Bool := false
  /-- handshake reports still awaited -/
  hsLeft : Nat := 0
  /-- `_reconnect_count` -/
  count : Nat := 0
  /-- a `_reconnect` task is sleeping -/
  pending : Bool := false
  /-- callbacks delivered so far -/
  cbs : List Status := []
  /-- ghost: failed timer-driven open attempts since the last `disconnected` -/
  attempts : Nat := 0
  /-- ghost: value of `attempts` at every `failed` callback -/
  failedAfter : List Nat := []
  deriving Repr

/-- `connected.is_set()` -/
def Conn.up (c : Conn) : Bool := c.fd && c.hsLeft == 0

/-- synchronous prefix of the `_reconnect` task (fixed code: reports `failed`) -/
def reconnect (c : Conn) : Conn :=
  let n := c.count + 1
  match c.limit with
  | some l =>
    if n > l then
      { c with count := 0, pending := false, cbs := c.cbs ++ [.failed],
               failedAfter := c.failedAfter ++ [c.attempts] }
    else { c with count := n, pending := true }
  | none => { c with count := n, pending := true }

/-- the unchanged tree: limit reached ⇒ silently give up (F9) -/
def reconnectOld (c : Conn) : Conn :=
  let n := c.count + 1
  match c.limit with
  | some l => if n > l then { c with count := 0, pending := false } else { c with count := n, pending := true }
  | none => { c with count := n, pending := true }

/-- body of `connect()`; `timed` = called from the `_reconnect` task -/
def openWith (rc : Conn → Conn) (timed : Bool) (c : Conn) : Conn :=
  if c.fd then c
  else if c.present then
    { c with fd := true, hsLeft := c.hsSteps, count := 0, cbs := c.cbs ++ [.connected] }
  else rc { c with attempts := if timed then c.attempts + 1 else 0 }

inductive Ev
  | lose        -- reader sees EOF / read error, or a write fails: `disconnect(reconnect=True)`
  | timer       -- the reconnect sleep is over
  | hs          -- a handshake report arrives
  | gone | back -- environment: device node disappears / reappears
  | connect     -- the application calls `connect()`
  deriving DecidableEq, Repr

/-- one step; `none` = the event is not possible in this state -/
def stepWith (rc : Conn → Conn) (c : Conn) : Ev → Option Conn
  | .lose =>
    if c.fd then
      some (rc { c with fd := false, hsLeft := 0, pending := false, present := false, attempts := 0,
                        cbs := c.cbs ++ [.disconnected] })
    else none
  | .timer => if c.pending then some (openWith rc true { c with pending := false }) else none
  | .hs => if c.fd && c.hsLeft > 0 then some { c with hsLeft := c.hsLeft - 1 } else none
  | .gone => if c.fd then none else some { c with present := false }
  | .back => some { c with present := true }
  | .connect => if c.pending then none else some (openWith rc false c)

def step := stepWith reconnect
def stepOld := stepWith reconnectOld

def run (st : Conn → Ev → Option Conn) : Conn → List Ev → Option Conn
  | c, [] => some c
  | c, e :: es => match st c e with | some c' => run st c' es | none => none

/-! ## the language of callbacks -/

inductive LState | idle | up | down
  deriving DecidableEq, Repr

/-- automaton for `connected · (disconnected · (connected | failed))*`; after
`failed` the driver is idle again (an explicit `connect()` may report
`connected`, and fail again). -/
def lstep : LState → Status → Option LState
  | .idle, .connected => some .up
  | .idle, .failed => some .idle
  | .up, .disconnected => some .down
  | .down, .connected => some .up
  | .down, .failed => some .idle
  | _, _ => none

def lrun : LState → List Status → Option LState
  | q, [] => some q
  | q, s :: l => match lstep q s with | some q' => lrun q' l | none => none

/-- the callbacks seen so far are a prefix of the status language -/
def Conn.langOK (c : Conn) : Bool := (lrun .idle c.cbs).isSome

end DaliVerif.Conn
