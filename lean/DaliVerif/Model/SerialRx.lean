import DaliVerif.Model.Py
import DaliVerif.Model.Frame
import DaliVerif.Gen.DriverConsts
/-!
# Model of the two serial receivers of `dali/driver/serial.py`

`LubaProtocol._process_byte` / `SCIRS232Protocol._process_byte` and the
handlers they dispatch to, as `step : State → Byte → Out`.  The Python object
keeps a fixed-size list `_buffer` (`[None] * MAX_LEN`); here it is a `List Nat`
of that length and **every write goes through `bufSet`, whose out-of-range
case is the explicit outcome `internal IndexError`** — it is never a silent
no-op.

What an `Item` is: one object put on one of the protocol object's queues
(`_queue_rx_raw_dali`, `_queue_tx_conf`, `_queue_rx_dali`, `_queue_rx_luba_cmd`,
`_queue_rx_info`), in the order in which the puts happen.

Decoding an observed frame into a `Command` is not part of this model (C01/C20):
the receivers call `Command.from_frame` and behave differently when it raises
`TypeError`.  That is an `Oracle` parameter (one function for the "received"
path, one for the "transmitted" path); every theorem quantifies over it and the
correspondence check probes it from the real receiver.
-/
namespace DaliVerif.SerialRx
open DaliVerif

abbrev Byte := Nat

/-- `decodes bits data devicetype`: does `Command.from_frame` return (rather than raise) -/
structure Oracle where
  rx : Nat → Nat → Nat → Bool
  tx : Nat → Nat → Nat → Bool

/-- a decoded frame as far as this model knows it: width, value, and the device type it was decoded with -/
structure Dec where
  bits : Nat
  data : Nat
  dt : Nat
  deriving DecidableEq, Repr

inductive Item where
  /-- `_queue_rx_raw_dali.put_nowait(v)`: an 8-bit backward frame value -/
  | raw (v : Nat)
  /-- LUBA `_queue_tx_conf.put_nowait(LubaMsgTxConf(tx_id, message))` -/
  | txconf (id : Nat) (msg : Option Dec)
  /-- `_queue_rx_dali.distribute(command)` -/
  | observed (d : Dec)
  /-- LUBA `_queue_rx_luba_cmd.put_nowait(LubaDeviceInfo(...))` -/
  | devinfo (gtin id pcb asm art : Nat)
  /-- LUBA `_queue_rx_luba_cmd.put_nowait(LubaDeviceSettings(mode, event_filter))` -/
  | settings (mode filter : Nat)
  /-- SCI `_queue_rx_info.put_nowait(SCIRS232DeviceReply(id, code))` -/
  | sciinfo (id code : Nat)
  deriving DecidableEq, Repr

/-- An exception escaping `_process_byte`.  `internal` = raised by the state
machine's own bookkeeping (a buffer index out of range, an invalid state);
`handler` = raised by the handler of a checksum-valid frame whose payload it
cannot interpret. -/
inductive RxErr where
  | internal (e : PyErr)
  | handler (e : PyErr)
  deriving DecidableEq, Repr

def RxErr.cls : RxErr → PyErr
  | .internal e => e
  | .handler e => e

/-- `buf[i] = v` on a Python list: `none` is `IndexError` -/
def bufSet (buf : List Nat) (i v : Nat) : Option (List Nat) :=
  if i < buf.length then some (buf.set i v) else none

/-- `reduce(xor, l)` -/
def xorAll (l : List Nat) : Nat := l.foldl Nat.xor 0

/-- `isinstance(cmd, EnableDeviceType)` for a decoded frame: the 16-bit special
command with address byte 0xC1 (tied exhaustively over all 256 operands × device types) -/
def isEDT (bits data : Nat) : Bool := bits == 16 && data / 256 == 0xC1

/-- the remembered device type after a successfully decoded frame -/
def nextDt (bits data : Nat) : Nat := if isEDT bits data then data % 256 else 0

/-! ## LUBA -/
namespace Luba
open Gen.DriverConsts

inductive Phase where
  | waitStart | waitCommand | waitLength | loopRead | waitChecksum
  deriving DecidableEq, Repr

structure State where
  phase : Phase
  buf : List Nat
  expected : Nat
  received : Nat
  rxdt : Nat
  txdt : Nat
  deriving DecidableEq, Repr

structure Out where
  state : State
  items : List Item
  err : Option RxErr
  deriving DecidableEq, Repr

/-- `LubaProtocol.__init__` / `reset()` on a fresh object -/
def init : State := ⟨.waitStart, List.replicate luba_MAX_LEN 0, 0, 0, 0, 0⟩

/-- `reset()` -/
def State.reset (s : State) : State :=
  { s with phase := .waitStart, buf := List.replicate luba_MAX_LEN 0, expected := 0, received := 0 }

/-- `DriverLubaRs232.LubaCmd(v)` succeeds -/
def knownCmd (v : Nat) : Bool := lubaCmd.any (fun p => p.2 == v)

/-- result of a handler: new device-type memories and the items, or the exception -/
abbrev HRes := Except PyErr (Nat × Nat × List Item)

/-- `_process_luba_event` on `payload = received_data[3:-1]` -/
def event (o : Oracle) (rxdt txdt : Nat) (payload : List Nat) : HRes :=
  -- payload[2] (inside a log f-string) and payload[3]
  if payload.length < 4 then .error .IndexError else
  let status := payload.getD 3 0
  let etype := (status &&& luba_EVENT_TYPE_MASK) >>> 6
  let einfo := status &&& luba_EVENT_INFO_MASK
  if etype == 0 then
    if payload.length < 5 then .error .IndexError else
    let txid := payload.getD 4 0
    let txd := payload.drop 5
    let bits := 8 * txd.length
    let data := Frame.ofBytesBE txd
    -- `Frame(bits=0, …)` raises ValueError, from_frame may raise: both swallowed by the bare except
    let ok := decide (0 < txd.length) && o.tx bits data txdt
    .ok (rxdt, (if ok then nextDt bits data else 0),
         [.txconf txid (if ok then some ⟨bits, data, txdt⟩ else none)])
  else if etype == 2 then
    if 1 ≤ einfo ∧ einfo ≤ 32 then
      match payload.drop 4 with
      | [] => .ok (rxdt, txdt, [])
      | [v] => .ok (rxdt, txdt, [.raw v])
      | rxd =>
        let bits := 8 * rxd.length
        let data := Frame.ofBytesBE rxd
        if o.rx bits data rxdt then .ok (nextDt bits data, txdt, [.observed ⟨bits, data, rxdt⟩])
        else .ok (rxdt, txdt, [])
    else .ok (rxdt, txdt, [])
  else .ok (rxdt, txdt, [])

/-- `_process_luba_response_dali_frame_to_tx` -/
def txResponse (rxdt txdt : Nat) (rd : List Nat) : HRes :=
  let n := rd.getD 2 0
  if n == 1 then .ok (rxdt, txdt, [])
  else if n == 2 then .ok (rxdt, txdt, [])
  else .error .ValueError

/-- `_process_luba_response_device_info` -/
def deviceInfo (rxdt txdt : Nat) (rd : List Nat) : HRes :=
  let n := rd.getD 2 0
  if n != 20 && n != 18 then .error .ValueError
  else if n == 18 then .error .NotImplementedError
  else .ok (rxdt, txdt,
    [.devinfo (Frame.ofBytesBE ((rd.drop 3).take 6)) (Frame.ofBytesBE ((rd.drop 9).take 8))
       (rd.getD 17 0) (rd.getD 18 0) (Frame.ofBytesBE ((rd.drop 19).take 4))])

/-- `_process_luba_response_settings` -/
def settingsRsp (rxdt txdt : Nat) (rd : List Nat) : HRes :=
  .ok (rxdt, txdt, [.settings (rd.getD 3 0) (rd.getD 4 0)])

/-- the dispatch after a good checksum (`rd` = `received_data`, `cmd` known) -/
def dispatch (o : Oracle) (rxdt txdt : Nat) (rd : List Nat) : HRes :=
  let cmd := rd.getD 1 0
  if cmd == lubaCmd_EVENT_MESSAGE then event o rxdt txdt ((rd.drop 3).dropLast)
  else if cmd == lubaCmd_ADD_DALI_FRAME_TO_TX_RSP then txResponse rxdt txdt rd
  else if cmd == lubaCmd_QUERY_DEVICE_INFO_RSP then deviceInfo rxdt txdt rd
  else if cmd == lubaCmd_READ_WRITE_SETTINGS_RSP then settingsRsp rxdt txdt rd
  else .ok (rxdt, txdt, [])

/-- `_process_byte` -/
def step (o : Oracle) (s : State) (b : Byte) : Out :=
  match s.phase with
  | .waitStart =>
    match bufSet s.buf 0 b with
    | none => ⟨s, [], some (.internal .IndexError)⟩
    | some buf =>
      if b == 0x59 then ⟨{ s with buf := buf, phase := .waitCommand }, [], none⟩
      else ⟨{ s with buf := buf }, [], none⟩
  | .waitCommand =>
    match bufSet s.buf 1 b with
    | none => ⟨s, [], some (.internal .IndexError)⟩
    | some buf => ⟨{ s with buf := buf, phase := .waitLength }, [], none⟩
  | .waitLength =>
    match bufSet s.buf 2 b with
    | none => ⟨s, [], some (.internal .IndexError)⟩
    | some buf =>
      if 0 < b ∧ b ≤ luba_MAX_LEN - 4 then
        ⟨{ s with buf := buf, expected := b, phase := .loopRead }, [], none⟩
      else ⟨({ s with buf := buf }).reset, [], none⟩
  | .loopRead =>
    let r := s.received + 1
    match bufSet s.buf (2 + r) b with
    | none => ⟨{ s with received := r }, [], some (.internal .IndexError)⟩
    | some buf =>
      ⟨{ s with buf := buf, received := r,
                phase := if r == s.expected then .waitChecksum else .loopRead }, [], none⟩
  | .waitChecksum =>
    match bufSet s.buf (s.received + 3) b with
    | none => ⟨s, [], some (.internal .IndexError)⟩
    | some buf =>
      let s1 := { s with buf := buf }
      let rd := buf.take (s.received + 4)
      let check := xorAll ((rd.drop 1).dropLast)
      if check != b then ⟨s1.reset, [], none⟩
      else if !knownCmd (buf.getD 1 0) then ⟨s1.reset, [], none⟩
      else
        match dispatch o s.rxdt s.txdt rd with
        | .error e => ⟨s1, [], some (.handler e)⟩
        | .ok (rxdt, txdt, items) => ⟨({ s1 with rxdt := rxdt, txdt := txdt }).reset, items, none⟩

/-- `data_received(chunk)`: byte by byte; an exception escapes and the rest of
the chunk is never looked at -/
def runChunk (o : Oracle) (s : State) : List Byte → Out
  | [] => ⟨s, [], none⟩
  | b :: bs =>
    let r := step o s b
    match r.err with
    | some e => ⟨r.state, r.items, some e⟩
    | none =>
      let r' := runChunk o r.state bs
      ⟨r'.state, r.items ++ r'.items, r'.err⟩

/-- a sequence of `data_received` calls; the transport keeps calling after an exception -/
def runChunks (o : Oracle) (s : State) : List (List Byte) → State × List Item × List RxErr
  | [] => (s, [], [])
  | c :: cs =>
    let r := runChunk o s c
    let (s', items, errs) := runChunks o r.state cs
    (s', r.items ++ items, (match r.err with | some e => [e] | none => []) ++ errs)

end Luba

/-! ## SCI -/
namespace Sci
open Gen.DriverConsts

inductive Phase where
  | waitStatus | waitHi | waitMi | waitLo | waitChecksum
  deriving DecidableEq, Repr

structure State where
  phase : Phase
  buf : List Nat
  rxdt : Nat
  deriving DecidableEq, Repr

structure Out where
  state : State
  items : List Item
  err : Option RxErr
  deriving DecidableEq, Repr

def init : State := ⟨.waitStatus, List.replicate sci_MAX_LEN 0, 0⟩

def State.reset (s : State) : State :=
  { s with phase := .waitStatus, buf := List.replicate sci_MAX_LEN 0 }

def knownCode (v : Nat) : Bool := sciCode.any (fun p => p.2 == v)
def knownError (v : Nat) : Bool := sciErrorType.any (fun p => p.2 == v)

/-- `_process_system_message` -/
def systemMessage (d : Nat) : Item := .sciinfo ((d &&& 0xf0) >>> 4) (d &&& 0xf)

/-- `_process_dali_frame` -/
def daliFrame (o : Oracle) (rxdt : Nat) (rd : List Nat) : Nat × List Item :=
  match rd with
  | [v] => (rxdt, [.raw v])
  | _ =>
    let bits := 8 * rd.length
    let data := Frame.ofBytesBE rd
    if o.rx bits data rxdt then (nextDt bits data, [.observed ⟨bits, data, rxdt⟩])
    else (rxdt, [])

/-- the dispatch after a good checksum with a known status code -/
def dispatch (o : Oracle) (rxdt : Nat) (buf : List Nat) : Nat × List Item :=
  let status := buf.getD 0 0 &&& sci_STATUS_CODE_MASK
  if status == sciCode_ERROR then
    if knownError (buf.getD 3 0) then (rxdt, [systemMessage (buf.getD 0 0)]) else (rxdt, [])
  else if status == sciCode_STATUS_OK then (rxdt, [systemMessage (buf.getD 0 0)])
  else if status == sciCode_STATUS_DALI_NO then (rxdt, [systemMessage (buf.getD 0 0)])
  else if status == sciCode_SEND_DALI_8 then daliFrame o rxdt [buf.getD 3 0]
  else if status == sciCode_SEND_DALI_16 then daliFrame o rxdt ((buf.drop 2).take 2)
  else if status == sciCode_SEND_DALI2_24 then daliFrame o rxdt ((buf.drop 1).take 3)
  else (rxdt, [])

def store (s : State) (i : Nat) (b : Byte) (next : Phase) : Out :=
  match bufSet s.buf i b with
  | none => ⟨s, [], some (.internal .IndexError)⟩
  | some buf => ⟨{ s with buf := buf, phase := next }, [], none⟩

/-- `_process_byte` -/
def step (o : Oracle) (s : State) (b : Byte) : Out :=
  match s.phase with
  | .waitStatus => store s 0 b .waitHi
  | .waitHi => store s 1 b .waitMi
  | .waitMi => store s 2 b .waitLo
  | .waitLo => store s 3 b .waitChecksum
  | .waitChecksum =>
    match bufSet s.buf 4 b with
    | none => ⟨s, [], some (.internal .IndexError)⟩
    | some buf =>
      let s1 := { s with buf := buf }
      let check := xorAll (buf.take 4)
      if check != b then ⟨s1.reset, [], none⟩
      else if !knownCode (buf.getD 0 0 &&& sci_STATUS_CODE_MASK) then ⟨s1.reset, [], none⟩
      else
        let (rxdt, items) := dispatch o s.rxdt buf
        ⟨({ s1 with rxdt := rxdt }).reset, items, none⟩

def runChunk (o : Oracle) (s : State) : List Byte → Out
  | [] => ⟨s, [], none⟩
  | b :: bs =>
    let r := step o s b
    match r.err with
    | some e => ⟨r.state, r.items, some e⟩
    | none =>
      let r' := runChunk o r.state bs
      ⟨r'.state, r.items ++ r'.items, r'.err⟩

def runChunks (o : Oracle) (s : State) : List (List Byte) → State × List Item × List RxErr
  | [] => (s, [], [])
  | c :: cs =>
    let r := runChunk o s c
    let (s', items, errs) := runChunks o r.state cs
    (s', r.items ++ items, (match r.err with | some e => [e] | none => []) ++ errs)

end Sci
end DaliVerif.SerialRx
