import DaliVerif.Model.PyInt
import DaliVerif.Model.Address
/-!
# `dali/address.py` at the level of Python integers

Compact forms of `address.from_frame`, `instance_from_frame` and of every address / instance class's
constructor + `add_to_frame`, on frames of the size the class requires, written in the vocabulary the source
translator prints.  `Tie/Address.lean` proves the definitions regenerated from the source equal these (for all
integers); `Proofs/AddressI.lean` proves these equal the model `Model/Address.lean`.
-/
namespace DaliVerif.AddressI

/-- a slice read with literal bounds, as the tracer folds it: `(d >> lo) & m` -/
def sl (d : Int) (lo m : Nat) : Int := pyAnd (pyShr d lo) m

/-- the constructors' range check `v < 0 or v > hi -> ValueError` -/
def ranged {α} (v : Int) (hi : Nat) (k : Except PyErr α) : Except PyErr α :=
  if v < 0 then .error .ValueError else if v > hi then .error .ValueError else k

/-- the slice write's value check `bit_length > w or v < 0 -> ValueError` -/
def fits {α} (v : Int) (w : Nat) (k : Except PyErr α) : Except PyErr α :=
  if (bitLength v : Int) > w then .error .ValueError else if v < 0 then .error .ValueError else k

def fromFrame16 (d : Int) : Except PyErr (String × Int) :=
  if sl d 9 127 = 127 then .ok ("GearBroadcast", 0)
  else if sl d 9 127 = 126 then .ok ("GearBroadcastUnaddressed", 0)
  else if sl d 13 7 = 4 then ranged (sl d 9 15) 15 (.ok ("GearGroup", sl d 9 15))
  else if pyAnd d 32768 ≠ 0 then .ok ("None", 0)
  else ranged (sl d 9 63) 63 (.ok ("GearShort", sl d 9 63))

def fromFrame24 (d : Int) : Except PyErr (String × Int) :=
  if pyAnd d 65536 = 0 then .ok ("None", 0)
  else if sl d 17 127 = 127 then .ok ("DeviceBroadcast", 0)
  else if sl d 17 127 = 126 then .ok ("DeviceBroadcastUnaddressed", 0)
  else if sl d 22 3 = 2 then ranged (sl d 17 31) 31 (.ok ("DeviceGroup", sl d 17 31))
  else if pyAnd d 8388608 ≠ 0 then .ok ("None", 0)
  else ranged (sl d 17 63) 63 (.ok ("DeviceShort", sl d 17 63))

def instFromFrame24 (d : Int) : Except PyErr (String × Int) :=
  let num (name : String) : Except PyErr (String × Int) := ranged (sl d 8 31) 31 (.ok (name, sl d 8 31))
  if sl d 13 7 = 0 then num "InstanceNumber"
  else if sl d 13 7 = 4 then num "InstanceGroup"
  else if sl d 13 7 = 6 then num "InstanceType"
  else if sl d 13 7 = 1 then num "FeatureInstanceNumber"
  else if sl d 13 7 = 5 then num "FeatureInstanceGroup"
  else if sl d 13 7 = 3 then num "FeatureInstanceType"
  else if sl d 8 255 = 253 then .ok ("FeatureInstanceBroadcast", 0)
  else if sl d 8 255 = 255 then .ok ("InstanceBroadcast", 0)
  else if sl d 8 255 = 252 then .ok ("FeatureDevice", 0)
  else if sl d 8 255 = 254 then .ok ("Device", 0)
  else .ok ("ReservedInstance", sl d 8 255)

/-- a slice write with literal bounds as the tracer folds it: `d & keep | v << lo` -/
def put (d : Int) (keep : Nat) (v : Int) (lo : Nat) : Int := pyOr (pyAnd d keep) (pyShl v lo)

def addGearBroadcast (d : Int) : Except PyErr Int := .ok (pyOr (pyAnd d 511) 65024)
def addGearBroadcastUnaddressed (d : Int) : Except PyErr Int := .ok (pyOr (pyAnd d 511) 64512)
def addGearGroup (d n : Int) : Except PyErr Int :=
  ranged n 15 (fits n 4 (.ok (put (pyOr (pyAnd d 8191) 32768) 57855 n 9)))
def addGearShort (d n : Int) : Except PyErr Int :=
  ranged n 63 (fits n 6 (.ok (put (pyAnd d 32767) 33279 n 9)))
def addDeviceBroadcast (d : Int) : Except PyErr Int := .ok (pyOr (pyAnd d 131071) 16646144)
def addDeviceBroadcastUnaddressed (d : Int) : Except PyErr Int := .ok (pyOr (pyAnd d 131071) 16515072)
def addDeviceGroup (d n : Int) : Except PyErr Int :=
  ranged n 31 (fits n 5 (.ok (put (pyOr (pyAnd d 4194303) 8388608) 12713983 n 17)))
def addDeviceShort (d n : Int) : Except PyErr Int :=
  ranged n 63 (fits n 6 (.ok (put (pyAnd d 8388607) 8519679 n 17)))

/-- `_AddressedInstance(n).add_to_frame`: the byte is `_flags | n` -/
def addInst (flags : Nat) (d n : Int) : Except PyErr Int :=
  ranged n 31 (fits (pyOr flags n) 8 (.ok (put d 16711935 (pyOr flags n) 8)))
def addReservedInstance (d n : Int) : Except PyErr Int := fits n 8 (.ok (put d 16711935 n 8))
/-- `_UnaddressedInstance().add_to_frame`: a literal byte, folded by the tracer -/
def addPlain (byteShifted : Nat) (d : Int) : Except PyErr Int := .ok (pyOr (pyAnd d 16711935) byteShifted)

end DaliVerif.AddressI
