import DaliVerif.Model.DevMemProg
/-!
# Model of `dali/device/sequences.py` and `dali/device/helpers.py` (C13)

Hand translation of `SetEventSchemes`, `SetEventFilters` (with the F5 repair:
`if uses_dtr2:`), `QueryEventFilters`, `query_input_value`, `check_bad_rsp`
and `DeviceInstanceTypeMapper.autodiscover`.  Same order of checks, same
exception classes.

Conventions: a command without a response class is resumed with Python `None`
by every driver, so the `if rsp is not None: return` exits after DTR0/1/2,
SET EVENT SCHEME / FILTER are dead under the driver protocol and are not
modelled (assumption recorded in tools/props/c13.py).  `yield progress(...)`
is not a command and is skipped by drivers and harness alike.
-/
namespace DaliVerif.DevMem

/-- response classes as far as `check_bad_rsp` can tell them apart -/
inductive RespKind where
  | plain      -- command.Response
  | numeric    -- NumericResponse (and NumericResponseMask)
  | yesno      -- YesNoResponse
  | bitmap     -- BitmapResponse subclasses (QueryDeviceStatusResponse)
  | enum5      -- QueryEventSchemeResponse (EnumResponse over EventScheme 0..4)
  deriving DecidableEq, Repr

/-- `check_bad_rsp(kind(raw))`; `ValueError` escapes from `EnumResponse.value`
for a byte that is no member of the enumeration. -/
def checkBadRsp : RespKind → Resp → PyRes Bool
  | _, .err => .ok true
  | .plain, .none => .ok false
  | .numeric, .none => .ok true
  | .yesno, .none => .ok false
  | .bitmap, .none => .ok true
  | .enum5, .none => .ok false
  | .enum5, .byte b => if b ≤ 4 then .ok false else .error .ValueError
  | _, .byte _ => .ok false

/-- `check_bad_rsp` on a NumericResponse / BitmapResponse: silence or framing error -/
def bad : Resp → Bool
  | .byte _ => false
  | _ => true

/-- `DeviceShort(a)`, `InstanceNumber(i)` raise ValueError out of range -/
def addrOK (a i : Nat) : Bool := a ≤ 63 && i ≤ 31

/-- `SetEventSchemes(device, instance, scheme)`; returns the raw answer of
QUERY EVENT SCHEME (the harness compares the returned response's raw value). -/
def setEventSchemes (a i : Nat) (scheme : Int) : Prog Resp :=
  if !addrOK a i then .fail .ValueError else
  if scheme < 0 ∨ scheme > 4 then .fail .ValueError else
  .send (.dtr0 true scheme.toNat) fun _ =>
  .send (.setEventScheme a i) fun _ =>
  .send (.queryEventScheme a i) fun r => .done r

/-- read-back part shared by `SetEventFilters` and `QueryEventFilters`:
`lo`, then `md` if `m`, then `hi` if `h`; `md0`/`hi0` are the bytes used when
a part is not read back. -/
def readFilter (a i : Nat) (m h : Bool) (md0 hi0 : Nat) : Prog (Option Nat) :=
  .send (.queryEventFilterL a i) fun r =>
  match r with
  | .byte lo =>
    let tail (md : Nat) : Prog (Option Nat) :=
      if h then
        .send (.queryEventFilterH a i) fun r =>
        match r with
        | .byte hi => .done (some (lo + 256 * md + 65536 * hi))
        | _ => .done none
      else .done (some (lo + 256 * md + 65536 * hi0))
    if m then
      .send (.queryEventFilterM a i) fun r =>
      match r with
      | .byte md => tail md
      | _ => .done none
    else tail md0
  | _ => .done none

/-- `SetEventFilters(device, instance, filter_value)` (`loadDtr2 = true`: the
repaired code).  `width = some w` when
`filter_value` is an `InstanceEventFilter` whose class has `dali_width() = w`,
`none` for a plain int.  Result: `None` or the integer the returned flag
object holds. -/
def setEventFiltersG (loadDtr2 : Bool) (a i : Nat) (width : Option Nat) (value : Int) :
    Prog (Option Nat) :=
  if !addrOK a i then .fail .ValueError else
  let uses1 := match width with | some w => decide (w > 8) | none => false
  let uses2 := match width with | some w => decide (w > 16) | none => false
  if value < 0 ∨ value ≥ 16777216 then .fail .OverflowError else
  let v := value.toNat
  let lo := v % 256
  let md := v / 256 % 256
  let hi := v / 65536 % 256
  .send (.dtr0 true lo) fun _ =>
  let afterDtr1 : Prog (Option Nat) :=
    let afterDtr2 : Prog (Option Nat) :=
      .send (.setEventFilter a i) fun _ => readFilter a i uses1 uses2 md hi
    if uses2 && loadDtr2 then .send (.dtr2 true hi) fun _ => afterDtr2 else afterDtr2
  if uses1 then .send (.dtr1 true md) fun _ => afterDtr1 else afterDtr1

/-- the code as repaired (`if uses_dtr2:`) -/
def setEventFilters := setEventFiltersG true

/-- the code before the F5 repair: `if uses_dtr2 > 16:` on a bool is never
true, so DTR2 is never loaded -/
def setEventFiltersOld := setEventFiltersG false

/-- `QueryEventFilters(device, instance, filter_type)` with
`filter_type.dali_width() = w` -/
def queryEventFilters (a i : Nat) (w : Nat) : Prog (Option Nat) :=
  if !addrOK a i then .fail .ValueError else
  readFilter a i (decide (w > 8)) (decide (w > 16)) 0 0

/-- the `while resolution > 8` loop of `query_input_value` and the final shift -/
def qivLoop (a i : Nat) (res value : Nat) : Prog Nat :=
  if h : res > 8 then
    .send (.queryInputValueLatch a i) fun r =>
    match r with
    | .byte c => qivLoop a i (res - 8) (value * 256 + c)
    | _ => .fail .DALISequenceError
  else .done (if res > 0 then value >>> (8 - res) else value)
termination_by res
decreasing_by omega

/-- `query_input_value(device, instance, resolution)` -/
def queryInputValue (a i : Nat) (resolution : Option Nat) : Prog Nat :=
  if !addrOK a i then .fail .ValueError else
  let rest (res : Nat) : Prog Nat :=
    .send (.queryInputValue a i) fun r =>
    match r with
    | .byte v => qivLoop a i res v
    | _ => .fail .DALISequenceError
  match resolution with
  | some res => rest res
  | none =>
    .send (.queryResolution a i) fun r =>
    match r with
    | .byte res => rest res
    | _ => .fail .DALISequenceError

/-! ## discovery scan -/

/-- the log of `add_type` calls: ((short address, instance number), type), oldest first -/
abbrev ScanLog := List ((Nat × Nat) × Nat)

/-- `for inst_int in range(num_inst)` from `i` on, `n` = remaining count -/
def scanInstances (a : Nat) : (n i : Nat) → ScanLog → (ScanLog → Prog ScanLog) → Prog ScanLog
  | 0, _, log, k => k log
  | n + 1, i, log, k =>
    if i > 31 then .fail .ValueError else
    .send (.queryInstanceEnabled a i) fun r =>
    match r with
    | .err => scanInstances a n (i + 1) log k          -- bad response: continue
    | .none => scanInstances a n (i + 1) log k         -- not enabled: continue
    | .byte _ =>
      .send (.queryInstanceType a i) fun r =>
      match r with
      | .byte t => scanInstances a n (i + 1) (log ++ [((a, i), t)]) k
      | _ => scanInstances a n (i + 1) log k

/-- `for addr_int in addresses` -/
def scanDevices : List Nat → ScanLog → Prog ScanLog
  | [], log => .send .stopQuiescentMode fun _ => .done log
  | a :: rest, log =>
    if a > 63 then .fail .ValueError else
    .send (.queryDeviceStatus a) fun r =>
    match r with
    | .byte st =>
      -- bit 2 "short address is mask", bit 6 "reset state"
      if st / 4 % 2 = 1 ∨ st / 64 % 2 = 1 then scanDevices rest log else
      .send (.queryNumberOfInstances a) fun r =>
      match r with
      | .byte n => scanInstances a n 0 log (scanDevices rest)
      | _ => scanDevices rest log
    | _ => scanDevices rest log

/-- `DeviceInstanceTypeMapper.autodiscover(addresses)`; returns the log of
`add_type` calls made (the mapping afterwards is the old one updated by them). -/
def autodiscover (addresses : List Nat) : Prog ScanLog :=
  .send .startQuiescentMode fun _ => scanDevices addresses []

/-- `mapping.get((a, i))` after the calls in `log` were applied to `init` -/
def lookupLog (log : ScanLog) (init : Nat × Nat → Option Nat) (key : Nat × Nat) : Option Nat :=
  match log.reverse.find? (fun e => e.1 == key) with
  | some e => some e.2
  | none => init key

end DaliVerif.DevMem
