import DaliVerif.Model.Py
/-!
# Model of `dali/frame.py`

`Frame` is a mutable Python object holding `_bits` and `_data`; every method
that mutates returns the new value here.  Shifts, masks and the order of the
argument checks are those of the Python source, so that the exception class
for every malformed operand is part of the model.
-/
namespace DaliVerif

structure Frame where
  bits : Nat
  data : Nat
  deriving DecidableEq, Repr, Inhabited

namespace Frame

def mask (w : Nat) : Nat := (1 <<< w) - 1

/-- `int.from_bytes(data, 'big')` for a sequence of ints -/
def ofBytesBE (l : List Nat) : Nat := l.foldl (fun acc b => acc * 256 + b) 0

/-- `n.to_bytes(len, 'big')` when it fits (low `len` bytes, most significant first) -/
def toBytesBE : Nat → Nat → List Nat
  | _, 0 => []
  | n, len + 1 => toBytesBE (n / 256) len ++ [n % 256]

/-- `Frame.__init__(bits, data)` -/
def new (bits data : PyVal) : PyRes Frame :=
  match bits.asInt? with
  | none => .error .TypeError
  | some b =>
    if b < 1 then .error .ValueError else
    let d : PyRes Int :=
      match data with
      | .int i => .ok i
      | .bool x => .ok (if x then 1 else 0)
      | .ints l =>
          if l.all (fun x => 0 ≤ x && x < 256)
          then .ok (Int.ofNat (ofBytesBE (l.map Int.toNat)))
          else .error .ValueError
      | _ => .error .TypeError
    match d with
    | .error e => .error e
    | .ok d =>
      if d < 0 then .error .ValueError
      else if bitLength d > b.toNat then .error .ValueError
      else .ok ⟨b.toNat, d.toNat⟩

/-- `_readslice` : returns `(hi, lo)` -/
def readSlice (f : Frame) (start stop step : PyVal) : PyRes (Nat × Nat) :=
  match start.asInt?, stop.asInt? with
  | some a, some b =>
    if !(step == .none || step.eqOne) then .error .TypeError else
    let hi := max a b
    let lo := min a b
    if hi < 0 || lo < 0 then .error .IndexError
    else if hi ≥ f.bits || lo ≥ f.bits then .error .IndexError
    else .ok (hi.toNat, lo.toNat)
  | _, _ => .error .TypeError

inductive Key where
  | idx (k : PyVal)
  | slice (start stop step : PyVal)
  deriving Repr

inductive Item where
  | bit (b : Bool)
  | num (n : Nat)
  deriving DecidableEq, Repr

/-- the slice read on raw numbers: `(d >> lo) & ((1 << (hi+1-lo)) - 1)` -/
def getSliceRaw (d hi lo : Nat) : Nat := (d >>> lo) &&& mask (hi + 1 - lo)

/-- the slice write on raw numbers -/
def setSliceRaw (bits d hi lo v : Nat) : Nat :=
  let template := mask (hi + 1 - lo) <<< lo
  let m := mask bits ^^^ template
  (d &&& m) ||| (v <<< lo)

def setBitRaw (bits d k : Nat) (v : Bool) : Nat :=
  if v then d ||| (1 <<< k) else d &&& (mask bits ^^^ (1 <<< k))

/-- the bit test `(d & (1 << k)) != 0` -/
def getBitRaw (d k : Nat) : Bool := d &&& (1 <<< k) != 0

/-- `__getitem__` -/
def getItem (f : Frame) : Key → PyRes Item
  | .slice a b s => do
      let (hi, lo) ← f.readSlice a b s
      pure (.num (getSliceRaw f.data hi lo))
  | .idx k =>
      match k.asInt? with
      | some i =>
          if i < 0 || i ≥ f.bits then .error .IndexError
          else .ok (.bit (getBitRaw f.data i.toNat))
      | none => .error .TypeError

/-- `__setitem__`; the frame is returned unchanged-by-type on error -/
def setItem (f : Frame) (key : Key) (value : PyVal) : PyRes Frame :=
  match key with
  | .slice a b s => do
      let (hi, lo) ← f.readSlice a b s
      match value.asInt? with
      | none => .error .TypeError
      | some v =>
        if bitLength v > hi + 1 - lo then .error .ValueError
        else if v < 0 then .error .ValueError
        else pure { f with data := setSliceRaw f.bits f.data hi lo v.toNat }
  | .idx k =>
      match k.asInt? with
      | some i =>
          if i < 0 || i ≥ f.bits then .error .IndexError
          else .ok { f with data := setBitRaw f.bits f.data i.toNat value.truthy }
      | none => .error .TypeError

/-- `__contains__` -/
def contains (f : Frame) : PyVal → Bool
  | .bool true => f.data != 0
  | .bool false => f.data != mask f.bits
  | _ => false

/-- `__add__`; `none` stands for an operand that is not a Frame -/
def add (f : Frame) : Option Frame → PyRes Frame
  | none => .error .TypeError
  | some g =>
    match new (.int (f.bits + g.bits)) (.int ((f.data <<< g.bits) ||| g.data)) with
    | .ok r => .ok r
    | .error _ => .error .TypeError

/-- `__eq__` / `__ne__`; `none` stands for an operand that is not a Frame -/
def eq (f : Frame) : Option Frame → Bool
  | none => false
  | some g => f.bits == g.bits && f.data == g.data

def ne (f : Frame) : Option Frame → Bool
  | none => true
  | some g => f.bits != g.bits || f.data != g.data

def packLenNat (f : Frame) (l : Nat) : PyRes (List Nat) :=
  if f.data < 256 ^ l then .ok (toBytesBE f.data l) else .error .OverflowError

/-- `pack` -/
def pack (f : Frame) : PyRes (List Nat) :=
  f.packLenNat (f.bits / 8 + (if f.bits % 8 != 0 then 1 else 0))

/-- `pack_len(l)` -/
def packLen (f : Frame) (l : PyVal) : PyRes (List Nat) :=
  match l.asInt? with
  | none => .error .TypeError
  | some n => if n < 0 then .error .ValueError else f.packLenNat n.toNat

/-- `as_byte_sequence` -/
def asByteSequence (f : Frame) : PyRes (List Nat) := f.pack

def pyList (l : List Nat) : String :=
  "[" ++ ", ".intercalate (l.map toString) ++ "]"

/-- `Frame.__str__` for class name `cls` (Frame / ForwardFrame) -/
def render (cls : String) (f : Frame) : PyRes String := do
  let bs ← f.asByteSequence
  pure s!"{cls}({f.bits},{pyList bs})"

end Frame
end DaliVerif

namespace DaliVerif.Frame

/-- the operations of a history (C05): operand frames are `Option Frame`,
`none` standing for an object that is not a Frame -/
inductive Op where
  | getItem (k : Key)
  | setItem (k : Key) (v : PyVal)
  | contains (v : PyVal)
  | add (g : Option Frame)
  | eq (g : Option Frame)
  | ne (g : Option Frame)

inductive Out where
  | unit
  | bit (b : Bool)
  | num (n : Nat)
  | frame (f : Frame)
  deriving DecidableEq

/-- one operation: the frame afterwards and what the call returned -/
def apply (f : Frame) : Op → PyRes (Frame × Out)
  | .getItem k => do
      match ← f.getItem k with
      | .bit b => pure (f, .bit b)
      | .num n => pure (f, .num n)
  | .setItem k v => do let f' ← f.setItem k v; pure (f', .unit)
  | .contains v => pure (f, .bit (f.contains v))
  | .add g => do let r ← f.add g; pure (f, .frame r)
  | .eq g => pure (f, .bit (f.eq g))
  | .ne g => pure (f, .bit (f.ne g))

/-- a history: an operation that raises leaves the frame as it was -/
def run (f : Frame) : List Op → Frame × List (PyRes Out)
  | [] => (f, [])
  | op :: ops =>
    match f.apply op with
    | .ok (f', o) => let (g, os) := run f' ops; (g, .ok o :: os)
    | .error e => let (g, os) := run f ops; (g, .error e :: os)

end DaliVerif.Frame
