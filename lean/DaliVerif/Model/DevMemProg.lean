import DaliVerif.Model.Py
/-!
# Command sequences as resumptions (C09, C10, C13)

A Python generator that yields commands and is resumed with the response is
modelled as a `Prog`: either finished with a value, finished with an
exception class, or "send this command and continue with the answer".

`Cmd` holds only the command kinds the memory and control-device sequences
use, with their frame encodings (`Cmd.frame`, `Cmd.name` = Python class name)
so that the lock-step driver can recognise a yielded command from
`type(cmd).__name__` and `cmd.frame.as_integer`.

`Resp` is what the *bus* delivers for one forward frame: silence, one clean
backward frame, or a framing error (two or more units answered / garbled).
The wrapping into the command's response class is done by the harness; the
models look at the raw value exactly where the Python code does.
-/
namespace DaliVerif.DevMem

/-- bus outcome for one forward frame -/
inductive Resp where
  | none
  | byte (b : Nat)
  | err
  deriving DecidableEq, Repr, Inhabited

/-- The commands used by `dali/memory/location.py`, `dali/device/sequences.py`
and `dali/device/helpers.py`.  `dev = true` is the 24-bit (control device)
form, `false` the 16-bit (control gear) form.  `a` is a short address,
`i` an instance number. -/
inductive Cmd where
  | dtr0 (dev : Bool) (v : Nat)
  | dtr1 (dev : Bool) (v : Nat)
  | dtr2 (dev : Bool) (v : Nat)
  | enableWriteMemory (dev : Bool) (a : Nat)
  | readMemoryLocation (dev : Bool) (a : Nat)
  | writeMemoryLocation (dev : Bool) (v : Nat)
  | writeMemoryLocationNoReply (dev : Bool) (v : Nat)
  | queryContentDTR0 (dev : Bool) (a : Nat)
  | queryContentDTR1 (dev : Bool) (a : Nat)
  | queryContentDTR2 (dev : Bool) (a : Nat)
  -- control-device instance commands
  | setEventScheme (a i : Nat)
  | setEventFilter (a i : Nat)
  | queryEventScheme (a i : Nat)
  | queryEventFilterL (a i : Nat)
  | queryEventFilterM (a i : Nat)
  | queryEventFilterH (a i : Nat)
  | queryResolution (a i : Nat)
  | queryInputValue (a i : Nat)
  | queryInputValueLatch (a i : Nat)
  | queryInstanceEnabled (a i : Nat)
  | queryInstanceType (a i : Nat)
  -- control-device device commands
  | queryDeviceStatus (a : Nat)
  | queryNumberOfInstances (a : Nat)
  | startQuiescentMode
  | stopQuiescentMode
  deriving DecidableEq, Repr, Inhabited

namespace Cmd

/-- 16-bit gear frame: short address byte `0AAAAAA1`, opcode -/
def gearStd (a op : Nat) : Nat := (2 * a + 1) * 256 + op
/-- 24-bit device command: short address byte, instance byte 0xFE, opcode -/
def devStd (a op : Nat) : Nat := (2 * a + 1) * 65536 + 0xFE * 256 + op
/-- 24-bit instance command: short address byte, instance number byte, opcode -/
def instStd (a i op : Nat) : Nat := (2 * a + 1) * 65536 + i * 256 + op

/-- (frame width, frame value) as the library encodes the command -/
def frame : Cmd → Nat × Nat
  | dtr0 false v => (16, 0xA300 + v)
  | dtr1 false v => (16, 0xC300 + v)
  | dtr2 false v => (16, 0xC500 + v)
  | writeMemoryLocation false v => (16, 0xC700 + v)
  | writeMemoryLocationNoReply false v => (16, 0xC900 + v)
  | enableWriteMemory false a => (16, gearStd a 0x81)
  | readMemoryLocation false a => (16, gearStd a 0xC5)
  | queryContentDTR0 false a => (16, gearStd a 0x98)
  | queryContentDTR1 false a => (16, gearStd a 0x9C)
  | queryContentDTR2 false a => (16, gearStd a 0x9D)
  | dtr0 true v => (24, 0xC13000 + v)
  | dtr1 true v => (24, 0xC13100 + v)
  | dtr2 true v => (24, 0xC13200 + v)
  | writeMemoryLocation true v => (24, 0xC12000 + v)
  | writeMemoryLocationNoReply true v => (24, 0xC12100 + v)
  | enableWriteMemory true a => (24, devStd a 0x15)
  | readMemoryLocation true a => (24, devStd a 0x3C)
  | queryContentDTR0 true a => (24, devStd a 0x36)
  | queryContentDTR1 true a => (24, devStd a 0x37)
  | queryContentDTR2 true a => (24, devStd a 0x38)
  | setEventScheme a i => (24, instStd a i 0x67)
  | setEventFilter a i => (24, instStd a i 0x68)
  | queryInstanceType a i => (24, instStd a i 0x80)
  | queryResolution a i => (24, instStd a i 0x81)
  | queryInstanceEnabled a i => (24, instStd a i 0x86)
  | queryEventScheme a i => (24, instStd a i 0x8B)
  | queryInputValue a i => (24, instStd a i 0x8C)
  | queryInputValueLatch a i => (24, instStd a i 0x8D)
  | queryEventFilterL a i => (24, instStd a i 0x90)
  | queryEventFilterM a i => (24, instStd a i 0x91)
  | queryEventFilterH a i => (24, instStd a i 0x92)
  | queryDeviceStatus a => (24, devStd a 0x30)
  | queryNumberOfInstances a => (24, devStd a 0x35)
  | startQuiescentMode => (24, 0xFFFE1D)
  | stopQuiescentMode => (24, 0xFFFE1E)

/-- Python class name (`type(cmd).__name__`) -/
def name : Cmd → String
  | dtr0 .. => "DTR0" | dtr1 .. => "DTR1" | dtr2 .. => "DTR2"
  | enableWriteMemory .. => "EnableWriteMemory"
  | readMemoryLocation .. => "ReadMemoryLocation"
  | writeMemoryLocation .. => "WriteMemoryLocation"
  | writeMemoryLocationNoReply .. => "WriteMemoryLocationNoReply"
  | queryContentDTR0 .. => "QueryContentDTR0"
  | queryContentDTR1 .. => "QueryContentDTR1"
  | queryContentDTR2 .. => "QueryContentDTR2"
  | setEventScheme .. => "SetEventScheme"
  | setEventFilter .. => "SetEventFilter"
  | queryEventScheme .. => "QueryEventScheme"
  | queryEventFilterL .. => "QueryEventFilterZeroToSeven"
  | queryEventFilterM .. => "QueryEventFilterEightToFifteen"
  | queryEventFilterH .. => "QueryEventFilterSixteenToTwentyThree"
  | queryResolution .. => "QueryResolution"
  | queryInputValue .. => "QueryInputValue"
  | queryInputValueLatch .. => "QueryInputValueLatch"
  | queryInstanceEnabled .. => "QueryInstanceEnabled"
  | queryInstanceType .. => "QueryInstanceType"
  | queryDeviceStatus .. => "QueryDeviceStatus"
  | queryNumberOfInstances .. => "QueryNumberOfInstances"
  | startQuiescentMode => "StartQuiescentMode"
  | stopQuiescentMode => "StopQuiescentMode"

/-- Rebuild a command from its class name, frame width and frame value; the
candidate is accepted only if it encodes back to exactly that frame. -/
def decode? (nm : String) (bits fr : Nat) : Option Cmd :=
  let dev := bits == 24
  let lo := fr % 256
  let a := (fr / (if dev then 65536 else 256)) / 2 % 64
  let i := fr / 256 % 256
  let cands : List Cmd := [
    dtr0 dev lo, dtr1 dev lo, dtr2 dev lo,
    writeMemoryLocation dev lo, writeMemoryLocationNoReply dev lo,
    enableWriteMemory dev a, readMemoryLocation dev a,
    queryContentDTR0 dev a, queryContentDTR1 dev a, queryContentDTR2 dev a,
    setEventScheme a i, setEventFilter a i, queryEventScheme a i,
    queryEventFilterL a i, queryEventFilterM a i, queryEventFilterH a i,
    queryResolution a i, queryInputValue a i, queryInputValueLatch a i,
    queryInstanceEnabled a i, queryInstanceType a i,
    queryDeviceStatus a, queryNumberOfInstances a, startQuiescentMode, stopQuiescentMode]
  cands.find? (fun c => c.name == nm && c.frame == (bits, fr))

def render (c : Cmd) : String := s!"{c.name}:{c.frame.1}:{c.frame.2}"

end Cmd

/-- A sequence (Python generator) as a resumption. -/
inductive Prog (α : Type) where
  | done (a : α)
  | fail (e : PyErr)
  | send (c : Cmd) (k : Resp → Prog α)

namespace Prog

def bind {α β} : Prog α → (α → Prog β) → Prog β
  | done a, f => f a
  | fail e, _ => fail e
  | send c k, f => send c (fun r => bind (k r) f)

/-- `try: x = yield from p  except E: h` — only the exception class `e` is caught -/
def catchErr {α} (e : PyErr) : Prog α → Prog α → Prog α
  | done a, _ => done a
  | fail e', h => if e' = e then h else fail e'
  | send c k, h => send c (fun r => catchErr e (k r) h)

/-- Run against any stateful responder (a specification unit, a faulty unit, a
whole bus).  Returns the generator's outcome and the responder's final state. -/
def run {σ α} (step : σ → Cmd → Resp × σ) : Prog α → σ → PyRes α × σ
  | done a, s => (.ok a, s)
  | fail e, s => (.error e, s)
  | send c k, s => run step (k (step s c).1) (step s c).2

/-- A responder that additionally records the exchange (oldest first). -/
def traced {σ} (step : σ → Cmd → Resp × σ) :
    σ × List (Cmd × Resp) → Cmd → Resp × (σ × List (Cmd × Resp)) :=
  fun (s, tr) c => ((step s c).1, ((step s c).2, tr ++ [(c, (step s c).1)]))

end Prog

end DaliVerif.DevMem
