import DaliVerif.Model.Py
import DaliVerif.Model.Frame
import DaliVerif.Gen.DriverConsts
/-!
# Models of the wire encoders / decoders of the nine gateway drivers

One namespace per driver, mirroring the Python (same order of checks, same
exception class).  A command is seen by the encoders only through
`len(frame)`, the frame's bytes, `sendtwice`, `response is not None`
(`isQuery`) and — LUBA priority — `isinstance(_, _StandardCommand)` /
`isinstance(_, DAPC)`.  Constants come from `Gen.DriverConsts` (regenerated
from the tree).  The models are those of the tree **with the `fix:` commits of
branch `wire` applied** (width refusal in daliserver / legacy hasseb / LUBA /
SCI, legacy Tridonic sequence number and send-twice bit, hid.hasseb status 3).
-/
namespace DaliVerif.Wire
open DaliVerif Gen.DriverConsts

structure Cmd where
  frame : Frame
  sendtwice : Bool
  isQuery : Bool
  isStd : Bool
  isDAPC : Bool
  deriving Repr

/-- what a received packet denotes -/
inductive Meaning where
  /-- nothing for the caller (ignored / no object returned) -/
  | none
  /-- "no answer" -/
  | noAnswer
  | backward (v : Nat)
  /-- framing error / invalid answer, with the value put in `BackwardFrameError` -/
  | backwardError (v : Nat)
  | forward (bits data : Nat)
  /-- transmission confirmation (Tridonic echo of the own frame) -/
  | ack
  /-- a driver-specific marker object -/
  | other (tag : String)
  | raises (e : PyErr)
  deriving DecidableEq, Repr

def xorAll (l : List Nat) : Nat := l.foldl Nat.xor 0

/-- `frame.as_byte_sequence` = `list(frame.pack)` for a frame satisfying its invariant -/
def bytesOf (f : Frame) : List Nat :=
  Frame.toBytesBE f.data (f.bits / 8 + (if f.bits % 8 != 0 then 1 else 0))

/-! ## dali/driver/hid.py — Tridonic DALI USB -/
namespace Tridonic

/-- `_seqnum`: the value after `i` -/
def seqNext (i : Nat) : Nat := if i + 1 > 0xff then 1 else i + 1

def seqNth (start : Nat) : Nat → Nat
  | 0 => start
  | n + 1 => seqNext (seqNth start n)

/-- `_cmdtmpl.pack(cmd, serial, ctrl, mode, frame, dtr0, prio, devtype)` = `">4B4s3B53x"` -/
def pack (cmd seq ctrl mode : Nat) (frame : List Nat) (dtr0 prio devtype : Nat) : List Nat :=
  [cmd, seq, ctrl, mode] ++ (frame ++ List.replicate (4 - frame.length) 0) ++ [dtr0, prio, devtype] ++
    List.replicate 53 0

def commandMode (f : Frame) : PyRes Nat :=
  if f.bits == 8 then .ok tridonic_SEND_MODE_DALI8
  else if f.bits == 16 then .ok tridonic_SEND_MODE_DALI16
  else if f.bits == 24 then .ok tridonic_SEND_MODE_DALI24
  else .error .UnsupportedFrameTypeError

/-- the 64 bytes `_send_raw` hands to `os.write` -/
def encode (seq : Nat) (c : Cmd) : PyRes (List Nat) :=
  if c.frame.bits != 16 && c.frame.bits != 24 then .error .UnsupportedFrameTypeError else
  match commandMode c.frame with
  | .error e => .error e
  | .ok mode =>
    match c.frame.packLenNat 4 with
    | .error e => .error e
    | .ok fr => .ok (pack tridonic_CMD_SEND seq (if c.sendtwice then tridonic_SEND_CTRL_SENDTWICE else 0) mode fr 0 0 0)

/-- how `_send_raw` reads one `_MODE_RESPONSE` packet (`_resptmpl` = `">BB4sHB55x"`) -/
def decode (msg : List Nat) : Meaning :=
  let rtype := msg.getD 1 0
  let frame := (msg.drop 2).take 4
  if rtype == tridonic_RESPONSE_FRAME_DALI16 || rtype == tridonic_RESPONSE_FRAME_DALI24 then .ack
  else if rtype == tridonic_RESPONSE_FRAME_DALI8 then
    -- BackwardFrame(frame) with a 4-byte `bytes`: ValueError unless it fits 8 bits
    (if Frame.ofBytesBE frame < 256 then .backward (Frame.ofBytesBE frame) else .raises .ValueError)
  else if rtype == tridonic_RESPONSE_INFO && frame.getD 3 0 == tridonic_BUS_STATUS_FRAMING_ERROR then
    .backwardError 255
  else if rtype == tridonic_RESPONSE_NO_FRAME then .noAnswer
  else .none

/-- the receive loop of `_send_raw` over the packets queued for this sequence number;
`Option.none` = still waiting -/
def collect (isQuery : Bool) : Int → Option Meaning → List (List Nat) → Option Meaning
  | outstanding, resp, [] =>
    if outstanding != 0 || resp.isNone then Option.none
    else some (if isQuery then resp.getD .none else .none)
  | outstanding, resp, m :: ms =>
    if outstanding != 0 || resp.isNone then
      match decode m with
      | .ack => collect isQuery (outstanding - 1) resp ms
      | .raises e => some (.raises e)
      | .none => collect isQuery outstanding resp ms
      | r => collect isQuery outstanding (some r) ms
    else some (if isQuery then resp.getD .none else .none)

def receive (c : Cmd) (msgs : List (List Nat)) : Option Meaning :=
  collect c.isQuery (if c.sendtwice then 2 else 1) Option.none msgs

end Tridonic

/-! ## dali/driver/hid.py — hasseb DALI Master -/
namespace HidHasseb

/-- the `os.write` calls of `_send_raw` -/
def encode (c : Cmd) : PyRes (List (List Nat)) :=
  if c.frame.bits != 16 then .error .UnsupportedFrameTypeError else
  match c.frame.packLenNat 2 with
  | .error e => .error e
  | .ok fr => .ok (List.replicate (if c.sendtwice then 2 else 1) fr)

/-- `_handle_read` + the status dispatch of `_send_raw`, for a query; `Option.none` = report ignored -/
def decode (status byte : Nat) : Option Meaning :=
  if status == hidhasseb_NO_DATA_AVAILABLE then Option.none
  else if status == hidhasseb_NO_ANSWER then some .noAnswer
  else if status == hidhasseb_OK then some (.backward byte)
  else if status == hidhasseb_INVALID_ANSWER then some (.backwardError byte)
  else some .none

end HidHasseb

/-! ## dali/driver/serial.py — LUBA -/
namespace Luba

def priority (c : Cmd) : Nat :=
  if (c.isStd && !c.isQuery && !c.sendtwice) || c.isDAPC then 0b00000010 else 0b00000101

/-- the bytes `send_dali_command` hands to `transport.write` -/
def encode (c : Cmd) : PyRes (List Nat) :=
  let d := bytesOf c.frame
  if !(c.frame.bits == 16 || c.frame.bits == 24) then .error .ValueError else
  let mode := priority c ||| (if c.sendtwice then 0b10000000 else 0)
  let body := [lubaCmd_ADD_DALI_FRAME_TO_TX_CMD, 7, 0, 8 * d.length, mode, d.getD 0 0, d.getD 1 0,
               (if d.length == 2 then 0 else d.getD 2 0), 0]
  .ok ([0x59] ++ body ++ [xorAll body])

end Luba

/-! ## dali/driver/serial.py — SCI RS232 -/
namespace Sci

/-- the bytes `send_dali_command` hands to `transport.write` (default device settings:
monitor_enable, no identify, echo) -/
def encode (c : Cmd) : PyRes (List Nat) :=
  let d := bytesOf c.frame
  if !(c.frame.bits == 8 || c.frame.bits == 16 || c.frame.bits == 24) then .error .ValueError else
  let base := (1 <<< 7) ||| (0 <<< 6) ||| (1 <<< 5) ||| ((if c.sendtwice then 1 else 0) <<< 4)
  let control := if d.length == 1 then base ||| 2 else if d.length == 2 then base ||| 3
                 else if d.length == 3 then base ||| 8 else base
  let body := [control, d.getD 0 0, (if d.length < 2 then 0 else d.getD 1 0), (if d.length < 3 then 0 else d.getD 2 0)]
  .ok (body ++ [xorAll body])

end Sci

/-! ## dali/driver/daliserver.py -/
namespace DaliServer

/-- the `socket.send` calls of `send` -/
def encode (c : Cmd) : PyRes (List (List Nat)) :=
  if c.frame.bits != 16 then .error .UnsupportedFrameTypeError else
  let msg := [2, 0] ++ bytesOf c.frame
  .ok (List.replicate (if c.sendtwice then 2 else 1) msg)

/-- `unpack_response` on `ver status rval pad` -/
def decode (isQuery : Bool) (status rval : Nat) : Meaning :=
  if isQuery then
    if status == 0 then .noAnswer
    else if status == 1 then .backward rval
    else if status == 255 then .backwardError 255
    else .raises .CommunicationError
  else .none

end DaliServer

/-! ## dali/driver/atxled.py -/
namespace Atx

def hexDigit (n : Nat) : Nat := if n < 10 then 48 + n else 55 + n   -- '0'.. / 'A'..

/-- `construct`: the ASCII line, as character codes -/
def encode (c : Cmd) : PyRes (List Nat) :=
  match atxPrefixTable.lookup c.frame.bits with
  | none => .error .KeyError
  | some p =>
    let pfx := if c.sendtwice && c.frame.bits == 16 then 116 else p   -- 't'
    .ok ([pfx] ++ (bytesOf c.frame).flatMap (fun b => [hexDigit (b / 16), hexDigit (b % 16)]) ++ [10])

def hexVal? (c : Nat) : Option Nat :=
  if 48 ≤ c ∧ c ≤ 57 then some (c - 48)
  else if 65 ≤ c ∧ c ≤ 70 then some (c - 55)
  else if 97 ≤ c ∧ c ≤ 102 then some (c - 87)
  else none

/-- `extract(line)` for a line `<letter><hex digits>[\n]` (no sign, blank or underscore) -/
def decode (line : List Nat) : Meaning :=
  match line with
  | 74 :: rest =>   -- 'J'
    let digits := if rest.getLast? == some 10 then rest.dropLast else rest
    if digits.isEmpty then .none else
    match digits.mapM hexVal? with
    | none => .none
    | some ds =>
      let v := ds.foldl (fun a d => a * 16 + d) 0
      if v < 256 then .backward v else .none
  | _ => .none

end Atx

/-! ## dali/driver/tridonic.py (legacy) -/
namespace LegacyTridonic

/-- `_get_sn` on the stored `_next_sn`: (returned number, new `_next_sn`) -/
def getSn (next : Nat) : Nat × Nat := (next, if next ≥ 255 then 1 else next + 1)

def snState : Nat → Nat
  | 0 => legacyTridonic_first_sn
  | n + 1 => (getSn (snState n)).2

/-- the `n`-th number handed out (n = 0 first) -/
def snNth (n : Nat) : Nat := (getSn (snState n)).1

/-- `construct`, given the sequence number `_get_sn` returned -/
def encode (sn : Nat) (c : Cmd) : PyRes (List Nat) :=
  if c.frame.bits == 16 then
    let d := bytesOf c.frame
    .ok ([legacyTridonic_DALI_USB_DIRECTION_USB, sn, (if c.sendtwice then 0x20 else 0),
          legacyTridonic_DALI_USB_TYPE_16BIT, 0, 0, d.getD 0 0, d.getD 1 0] ++ List.replicate 56 0)
  else .error .ValueError

/-- `extract` on a packet of at least 9 bytes -/
def decode (data : List Nat) : Meaning :=
  let dr := data.getD 0 0
  let ty := data.getD 1 0
  let ad := data.getD 4 0
  let cm := data.getD 5 0
  if dr == legacyTridonic_DALI_USB_DIRECTION_DALI then
    if ty == legacyTridonic_DALI_USB_TYPE_COMPLETE then .forward 16 (Frame.ofBytesBE [ad, cm])
    else if ty == legacyTridonic_DALI_USB_TYPE_BROADCAST then .forward 16 (Frame.ofBytesBE [ad, cm])
    else .none
  else if dr == legacyTridonic_DALI_USB_DIRECTION_USB then
    if ty == legacyTridonic_DALI_USB_TYPE_NO_RESPONSE then .noAnswer
    else if ty == legacyTridonic_DALI_USB_TYPE_RESPONSE then .backward cm
    else .none
  else .none

end LegacyTridonic

/-! ## dali/driver/hasseb.py (legacy) -/
namespace LegacyHasseb

/-- the sequence-number update at the head of `construct` -/
def snNext (sn : Nat) : Nat := if sn + 1 > 255 then 1 else sn + 1

def snNth : Nat → Nat
  | 0 => snNext legacyHasseb_first_sn
  | n + 1 => snNext (snNth n)

/-- `construct`, with `sn` the stored number before the call: (packet, new stored number) -/
def encode (sn : Nat) (c : Cmd) : PyRes (List Nat × Nat) :=
  if c.frame.bits != 16 then .error .ValueError else
  let sn' := snNext sn
  let d := bytesOf c.frame
  .ok ([0xAA, legacyHasseb_HASSEB_DALI_FRAME, sn', 16, (if c.isQuery then 1 else 0), 0,
        (if c.sendtwice then 10 else 0), d.getD 0 0, d.getD 1 0, 0], sn')

/-- `extract` on a 10-byte report -/
def decode (data : List Nat) : Meaning :=
  if data.getD 1 0 == legacyHasseb_HASSEB_DRIVER_NO_DATA_AVAILABLE then .other "NoDataAvailable"
  else if data.getD 1 0 == legacyHasseb_HASSEB_DALI_FRAME then
    let st := data.getD 3 0
    if st == legacyHasseb_HASSEB_DRIVER_NO_ANSWER then .noAnswer
    else if st == legacyHasseb_HASSEB_DRIVER_OK && data.getD 4 0 == 1 then .backward (data.getD 5 0)
    else if st == legacyHasseb_HASSEB_DRIVER_INVALID_ANSWER then .backwardError 255
    else if st == legacyHasseb_HASSEB_DRIVER_TOO_EARLY then .other "AnswerTooEarly"
    else if st == legacyHasseb_HASSEB_DRIVER_SNIFFER_BYTE then .other "SnifferByte"
    else if st == legacyHasseb_HASSEB_DRIVER_SNIFFER_BYTE_ERROR then .other "SnifferByteError"
    else .none
  else .none

end LegacyHasseb

/-! ## dali/driver/unipi.py -/
namespace Unipi

/-- `construct`: the two Modbus registers -/
def encode (c : Cmd) : PyRes (Nat × Nat) :=
  let d := bytesOf c.frame
  if c.frame.bits == 16 then
    let opt := 0x2 ||| (if c.sendtwice then unipi_DA_OPT_TWICE else 0)
    .ok (opt <<< 8, (d.getD 0 0 <<< 8) ||| d.getD 1 0)
  else if c.frame.bits == 24 then
    let opt := 0x3 ||| (if c.sendtwice then unipi_DA_OPT_TWICE else 0)
    .ok ((opt <<< 8) ||| d.getD 0 0, (d.getD 1 0 <<< 8) ||| d.getD 2 0)
  else .error .ValueError

/-- `extract((reg1, reg2))` -/
def decode (r0 r1 : Nat) : Meaning :=
  if r0 == 0x100 then (if r1 < 256 then .backward r1 else .raises .ValueError)
  else if r0 == 0x200 then
    (if r1 >>> 8 < 256 then .forward 16 (Frame.ofBytesBE [r1 >>> 8, r1 &&& 0xFF]) else .raises .ValueError)
  else .noAnswer

/-! ### receive side of `SyncUnipiDALIDriver.send`

The gateway publishes a received frame in three holding registers: a free-running 16-bit receive counter, a type
word and the data.  `send` samples the counter (and the framing-error counter) right after transmitting and then
polls the three registers six times; **a reply is new ⇔ the counter differs from the sample** (`!=`, not `>`: the
counter wraps from 0xFFFF to 0). -/

/-- what `send` returns: `DALI_NO_RESPONSE`, or `command.response(BackwardFrame(v))` / `command.response(None)` -/
inductive SendResult where
  | noResponse
  | response (v : Option Nat)
  deriving DecidableEq, Repr

/-- the registers read in one iteration of the polling loop (`fe` = framing-error counter, read for Compare only) -/
structure Poll where
  counter : Nat
  r0 : Nat
  r1 : Nat
  fe : Nat
  deriving DecidableEq, Repr

/-- `_read_returning_frame(counter1)`: `None` unless the counter changed -/
def readReturning (c1 : Nat) (p : Poll) : Option Meaning :=
  if c1 != p.counter then some (decode p.r0 p.r1) else none

/-- the `for i in range(6)` loop of `send` over the registers it reads; an exception (a backward-frame register
that does not fit 8 bits) is swallowed by `except Exception: pass` and `DALI_NO_RESPONSE` returned -/
def pollLoop (isCompare : Bool) (c1 fe1 : Nat) : List Poll → SendResult
  | [] => .response none
  | p :: ps =>
    match readReturning c1 p with
    | some (.raises _) => .noResponse
    | some (.backward v) => .response (some v)
    | _ => if isCompare && fe1 != p.fe then .response (some 255) else pollLoop isCompare c1 fe1 ps

def nPolls : Nat := 6

/-- `send` after `_send_command`: `c1`/`fe1` are the sampled counters, `polls` what the following reads return -/
def recv (isQuery isCompare : Bool) (c1 fe1 : Nat) (polls : List Poll) : SendResult :=
  if !isQuery then .noResponse else pollLoop isCompare c1 fe1 (polls.take nPolls)

end Unipi

end DaliVerif.Wire
