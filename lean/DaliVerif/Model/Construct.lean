import DaliVerif.Model.Decode
/-!
# Model of the command constructors' argument handling

`construct*` turn Python arguments into the typed fields of a `Cmd` (or raise);
the frame assembly — where a wrong-kind address or an oversized value can
still raise — is `Cmd.encode`.  A constructor call succeeds iff both do.
-/
namespace DaliVerif.Cmd

/-- a constructor argument: a plain Python value, an address object or an
instance-byte object -/
inductive Arg where
  | val (v : PyVal)
  | addr (a : Addr)
  | inst (i : Inst)
  deriving Repr

/-- `Command._check_destination` (an int becomes `address.Short`, i.e. a gear
short address, whatever the command family) -/
def checkDestination : Arg → PyRes (Addr ⊕ Inst)
  | .addr a => .ok (.inl a)
  | .inst i => .ok (.inr i)            -- has `add_to_frame`, so it is let through
  | .val v =>
      match v.asInt? with
      | some _ => (Addr.mkGearShort v).map .inl
      | none => .error .ValueError

/-- integer parameter in `0..limit`, `ValueError` otherwise -/
def intParam (v : Arg) (limit : Nat) : PyRes Nat :=
  match v with
  | .val v =>
    match v.asInt? with
    | some i => if i < 0 || i > limit then .error .ValueError else .ok i.toNat
    | none => .error .ValueError
  | _ => .error .ValueError

/-- `_StandardCommand.__init__(destination, *args)` -/
def constructStd (c : StdClass) : List Arg → PyRes Cmd
  | [] => .error .TypeError
  | dest :: rest => do
      let p ← if c.hasparam then
          match rest with
          | [p] => intParam p 15
          | _ => .error .TypeError
        else
          match rest with
          | [] => pure 0
          | _ => .error .TypeError
      match ← checkDestination dest with
      | .inl a => pure (.standard c a p)
      | .inr _ => .error .IncompatibleFrame   -- instance object: `add_to_frame` refuses a 16-bit frame

/-- `DAPC.__init__(destination, power)` -/
def constructDapc : List Arg → PyRes Cmd
  | [dest, power] => do
      let p ← match power with
        | .val (.str "OFF") => pure 0
        | .val (.str "MASK") => pure 255
        | v => intParam v 255
      match ← checkDestination dest with
      | .inl a => pure (.dapc a p)
      | .inr _ => .error .IncompatibleFrame
  | _ => .error .TypeError

/-- `_SpecialCommand.__init__(*args)` -/
def constructSpecial (c : SpecialClass) (args : List Arg) : PyRes Cmd :=
  if c.hasparam then
    match args with
    | [p] => do let p ← intParam p 255; pure (.special c p)
    | _ => .error .TypeError
  else
    match args with
    | [] => pure (.special c 0)
    | _ => .error .TypeError

/-- `_ShortAddrSpecialCommand.__init__(address)` -/
def constructShortSpecial (c : SpecialClass) : List Arg → PyRes Cmd
  | [.val (.str "MASK")] => pure (.shortSpecial c none)
  | [a] => do let a ← intParam a 63; pure (.shortSpecial c (some a))
  | _ => .error .TypeError

/-- `Initialise.__init__(broadcast=False, address=None)` -/
def constructInitialise (c : SpecialClass) (broadcast address : PyVal) : PyRes Cmd :=
  if broadcast.truthy && address != .none then .error .ValueError else
  match address with
  | .none => pure (.initialise c broadcast.truthy none)
  | v => do let a ← intParam (.val v) 63; pure (.initialise c broadcast.truthy (some a))

/-- `_StandardDeviceCommand.__init__(device)` -/
def constructDevStd (c : DevClass) : List Arg → PyRes Cmd
  | [dest] => do
      match ← checkDestination dest with
      | .inl a => pure (.devStd c a)
      | .inr _ => .error .NotImplementedError   -- not modelled: instance object as destination
  | _ => .error .TypeError

/-- `_StandardInstanceCommand.__init__(device, instance)` -/
def constructDevInst (c : DevClass) : List Arg → PyRes Cmd
  | [dest, .inst i] => do
      match ← checkDestination dest with
      | .inl a => pure (.devInst c a i)
      | .inr _ => .error .NotImplementedError
  | [dest, _] => do
      let _ ← checkDestination dest
      .error .ValueError
  | _ => .error .TypeError

/-- the three special device command constructors -/
def constructDevSpecial (c : DevSpecialClass) (args : List Arg) : PyRes Cmd :=
  match c.kind, args with
  | .zero, [] => pure (.devSpecial c c.inst 0)
  | .one, [p] => do let p ← intParam p 255; pure (.devSpecial c c.inst p)
  | .two, [a, b] => do
      -- both are type-checked before either is range-checked
      match a, b with
      | .val va, .val vb =>
        match va.asInt?, vb.asInt? with
        | some _, some _ => do
            let a ← intParam a 255; let b ← intParam b 255; pure (.devSpecial c a b)
        | _, _ => .error .ValueError
      | _, _ => .error .ValueError
  | .zero, _ | .one, _ | .two, _ => .error .TypeError
  | _, _ => .error .NotImplementedError

/-- `_Event.__init__(*, short_address, instance_number, instance_group, device_group)`:
which keyword arguments are given selects one of the five addressing schemes of
part 103 Table 3; every other combination raises `ValueError`.  (Range checks of
the fields happen in the frame assembly, `eventSrcToFrame`.) -/
def constructEventSrc (sa inum ig dg : Option Nat) : PyRes EventSrc :=
  match sa with
  | some sa =>
      if dg.isSome then .error .ValueError else if ig.isSome then .error .ValueError else
      match inum with
      | none => .ok (.device sa)
      | some n => .ok (.deviceInstance sa n)
  | none =>
    match dg with
    | some g => if inum.isSome then .error .ValueError else if ig.isSome then .error .ValueError
        else .ok (.deviceGroup g)
    | none =>
      match ig with
      | some g => if inum.isSome then .error .ValueError else .ok (.instanceGroup g)
      | none =>
        match inum with
        | some n => .ok (.inst n)
        | none => .error .ValueError

/-- the device type under which an object's own frame is decoded -/
def dtOf : Cmd → Nat
  | .standard c .. => c.dt
  | _ => 0

/-- a map naming the instance type of a device/instance-scheme event -/
def mapFor : Cmd → Option InstMap
  | .event _ t (.deviceInstance sa inum) _ => some [((sa, inum), (t : Int))]
  | .unknownEvent t (.deviceInstance sa inum) _ => some [((sa, inum), t)]
  | _ => none


end DaliVerif.Cmd
