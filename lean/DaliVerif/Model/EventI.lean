import DaliVerif.Model.AddressI
/-!
# `_Event.__init__` at the level of Python integers

Compact forms of the event constructor, one per addressing scheme of IEC 62386-103 Table 3, in the vocabulary
the source translator prints: `start` is `ForwardFrame(24, info)`, every slice write is a `fits` check followed
by a `put` with the keep-mask the tracer folds, every bit write an `pyAnd`/`pyOr` with a literal.
-/
namespace DaliVerif.EventI
open DaliVerif.AddressI

/-- `ForwardFrame(24, info)` -/
def start (info : Int) (k : Int → Except PyErr Int) : Except PyErr Int :=
  if info < 0 then .error .ValueError
  else if (bitLength info : Int) > 24 then .error .ValueError
  else k info

/-- `f[14:10] = v` -/
def put1410 (d v : Int) (k : Int → Except PyErr Int) : Except PyErr Int := fits v 5 (k (put d 16745471 v 10))
/-- `f[21:17] = v` -/
def put2117 (d v : Int) (k : Int → Except PyErr Int) : Except PyErr Int := fits v 5 (k (put d 12713983 v 17))
/-- `f[9:0] = v` -/
def put90 (d v : Int) (k : Int → Except PyErr Int) : Except PyErr Int := fits v 10 (k (put d 16776192 v 0))

def clr23 (d : Int) : Int := pyAnd d 8388607
def set23 (d : Int) : Int := pyOr d 8388608
def clr22 (d : Int) : Int := pyAnd d 12582911
def set22 (d : Int) : Int := pyOr d 4194304
def clr15 (d : Int) : Int := pyAnd d 16744447
def set15 (d : Int) : Int := pyOr d 32768

/-- the source-identification writes of each scheme, continuing with `k` on the frame contents -/
def device (info itype sa : Int) (k : Int → Except PyErr Int) : Except PyErr Int :=
  start info fun d => put1410 d itype fun d =>
    match AddressI.addDeviceShort (clr15 (clr23 d)) sa with
    | .error e => .error e
    | .ok d => k d

def deviceInstance (info inum sa : Int) (k : Int → Except PyErr Int) : Except PyErr Int :=
  start info fun d => put1410 d inum fun d =>
    match AddressI.addDeviceShort (set15 (clr23 d)) sa with
    | .error e => .error e
    | .ok d => k d

def deviceGroup (info itype g : Int) (k : Int → Except PyErr Int) : Except PyErr Int :=
  start info fun d => put1410 d itype fun d => put2117 d g fun d => k (clr15 (clr22 (set23 d)))

def instanceGroup (info itype g : Int) (k : Int → Except PyErr Int) : Except PyErr Int :=
  start info fun d => put1410 d itype fun d => put2117 d g fun d => k (clr15 (set22 (set23 d)))

def inst (info itype inum : Int) (k : Int → Except PyErr Int) : Except PyErr Int :=
  start info fun d => put2117 d itype fun d => put1410 d inum fun d => k (set15 (clr22 (set23 d)))

def done (d : Int) : Except PyErr Int := .ok d
/-- `LightEvent._set_event_data`: the illuminance over the information field -/
def light (data : Int) (d : Int) : Except PyErr Int := put90 d data done

/-- `OccupancyEvent._set_event_data` with an integer `data`: the four flags are the low four bits of `data`
(each compared with its own mask), written one bit at a time over the information field -/
def occ (data : Int) (d : Int) : Except PyErr Int :=
  let d := if pyAnd data 1 = 1 then pyOr d 1 else pyAnd d 16777214
  let d := if pyAnd data 2 = 2 then pyOr d 2 else pyAnd d 16777213
  let d := if pyAnd data 4 = 4 then pyOr d 4 else pyAnd d 16777211
  let d := if pyAnd data 8 = 8 then pyOr d 8 else pyAnd d 16777207
  .ok d

end DaliVerif.EventI
