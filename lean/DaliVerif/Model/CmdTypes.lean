import DaliVerif.Model.Address
/-!
# Types for the command codec: class records, registries, decoded commands

The *records and registries* are data regenerated from `/repo` on every run
(`Gen/Commands.lean`, by `tools/gen/commands.py`): they are what the
metaclasses have put into `_opcodes`, `_gearcommands`, … at import.
-/
namespace DaliVerif.Cmd

/-- a concrete subclass of `_StandardCommand` (IEC 62386-102 Table 15 and parts 2xx) -/
structure StdClass where
  name : String
  cmdval : Nat
  hasparam : Bool
  dt : Nat
  /-- `__init__`, `from_frame`, `__str__` are `_StandardCommand`'s own -/
  known : Bool
  deriving DecidableEq, Repr, Inhabited

/-- which functions implement a subclass of `_SpecialCommand` -/
inductive SpecialKind where
  | plain | shortAddr | initialise | custom
  deriving DecidableEq, Repr, Inhabited

structure SpecialClass where
  name : String
  cmdval : Nat
  hasparam : Bool
  kind : SpecialKind
  deriving DecidableEq, Repr, Inhabited

/-- a subclass of `_StandardDeviceCommand` or `_StandardInstanceCommand` -/
structure DevClass where
  name : String
  opcode : Nat
  known : Bool
  deriving DecidableEq, Repr, Inhabited

inductive DevSpecialKind where
  | zero | one | two | abstractBase | custom
  deriving DecidableEq, Repr, Inhabited

/-- a subclass of `_SpecialDeviceCommand` (`_addr`, `_instance` class attributes) -/
structure DevSpecialClass where
  name : String
  addr : Nat
  inst : Nat
  kind : DevSpecialKind
  deriving DecidableEq, Repr, Inhabited

/-- entries of `_GearCommand._gearcommands`, in registration order -/
inductive GearEntry where
  | unknown | standard | dapc | special | custom (name : String)
  deriving DecidableEq, Repr, Inhabited

/-- entries of `_DeviceCommand._devicecommands`, in registration order -/
inductive DevEntry where
  | unknown | stdDevice | stdInstance | special (c : DevSpecialClass) | custom (name : String)
  deriving DecidableEq, Repr, Inhabited

/-- entries of `Command._framesizes[n]` -/
inductive TopEntry where
  | gear | device | event | custom (name : String)
  deriving DecidableEq, Repr, Inhabited

/-- how a class registered in `_Event._instance_types` picks the event class -/
inductive EventKind where
  | pushbutton | occupancy | light | custom
  deriving DecidableEq, Repr, Inhabited

structure EventType where
  name : String
  kind : EventKind
  deriving DecidableEq, Repr, Inhabited

/-- a class registered in `_PushbuttonEvent._event_classes` -/
structure PushClass where
  name : String
  /-- the unqualified class name -/
  base : String
  info : Nat
  deriving DecidableEq, Repr, Inhabited

/-- everything decoding consults -/
structure Tables where
  framesizes : List (Nat × List TopEntry)
  gearCommands : List GearEntry
  stdOpcodes : List ((Nat × Nat) × StdClass)
  specialOpcodes : List (Nat × SpecialClass)
  devCommands : List DevEntry
  devOpcodes : List (Nat × DevClass)
  instOpcodes : List (Nat × DevClass)
  instanceTypes : List (Nat × EventType)
  pushEvents : List (Nat × PushClass)
  addrOrder : List AddrKind
  deriving Repr, Inhabited

/-- where an event says it comes from (part 103 Table 3) -/
inductive EventSrc where
  | device (sa : Nat)                       -- short address + instance type
  | deviceInstance (sa inum : Nat)          -- short address + instance number
  | deviceGroup (g : Nat)                   -- device group + instance type
  | inst (inum : Nat)                       -- instance type + instance number
  | instanceGroup (g : Nat)                 -- instance group + instance type
  deriving DecidableEq, Repr, Inhabited

/-- the event-information part of a decoded event -/
inductive EventBody where
  | pushbutton (c : PushClass)
  | occupancy (movement occupied rep sensorMovement : Bool)
  | light (illuminance : Nat)
  | unknown (data : Nat)
  deriving DecidableEq, Repr, Inhabited

/-- a decoded (or constructed) command object: its class and its fields -/
inductive Cmd where
  | generic (bits data : Nat)
  | unknownGear (data : Nat)
  | dapc (a : Addr) (power : Nat)
  | standard (c : StdClass) (a : Addr) (param : Nat)
  | special (c : SpecialClass) (param : Nat)
  | shortSpecial (c : SpecialClass) (addr : Option Nat)
  | initialise (c : SpecialClass) (broadcast : Bool) (addr : Option Nat)
  | unknownDevice (data : Nat)
  | devStd (c : DevClass) (a : Addr)
  | devInst (c : DevClass) (a : Addr) (i : Inst)
  | devSpecial (c : DevSpecialClass) (p1 p2 : Nat)
  /-- an event of a registered instance-type class; `itype` is the class's `_instance_type` -/
  | event (cls : String) (itype : Nat) (src : EventSrc) (body : EventBody)
  /-- `UnknownEvent(instance_type=itype, …)`; the type may come from a map and be any integer -/
  | unknownEvent (itype : Int) (src : EventSrc) (data : Nat)
  | ambiguous (sa inum data : Nat)
  deriving DecidableEq, Repr, Inhabited

/-- instance-type map (`DeviceInstanceTypeMapper._mapping`) -/
abbrev InstMap := List ((Nat × Nat) × Int)

def InstMap.getType (m : InstMap) (sa inum : Nat) : Option Int :=
  (m.find? (fun e => e.1 == (sa, inum))).map (·.2)

def lookup {α β} [BEq α] (l : List (α × β)) (k : α) : Option β :=
  (l.find? (fun e => e.1 == k)).map (·.2)

end DaliVerif.Cmd

namespace DaliVerif.Cmd

/-- one row per concrete command/event class: the class attributes the
standard's command tables talk about (C03) -/
structure ClassRow where
  qualname : String          -- module-qualified, e.g. "gear.general.Off"
  framesize : Nat
  family : String            -- std | dapc | special | shortSpecial | initialise | devStd | devInst | devSpecial0/1/2 | event | unknown… 
  code : Nat                 -- _cmdval / _opcode / _event_info (0 when absent)
  addrByte : Nat             -- special device `_addr` (0 otherwise)
  instByte : Nat             -- special device `_instance` (0 otherwise)
  hasparam : Bool
  dt : Nat
  sendtwice : Bool
  response : String          -- response class name, "" = no answer expected
  responseKind : String      -- "", "yesno", "numeric", "numericmask", "bitmap", "enum", "generic", "custom"
  usesDtr0 : Bool
  usesDtr1 : Bool
  usesDtr2 : Bool
  appctrl : Bool
  inputdev : Bool
  deriving DecidableEq, Repr, Inhabited

end DaliVerif.Cmd
