import DaliVerif.Model.Py
/-!
# Types shared by the memory-value model, its generated table and its specification

`MemValue` is one row of `Gen.memValues` (written by `tools/gen/memory.py`):
the declared locations of a value, which Python function implements each step
of the interpretation (`custom` = unknown to the model, no semantics), and the
class data those functions read.
-/
namespace DaliVerif.Mem

inductive MemType where
  | ROM | RAM_RO | RAM_RW | NVM_RO | NVM_RW | NVM_RW_L | NVM_RW_P | unknown
  deriving DecidableEq, Repr

structure Loc where
  addr : Nat
  type : MemType
  default : Option Nat
  reset : Option Nat
  deriving DecidableEq, Repr

inductive R2VImpl where
  | plain | numeric | fixedScale | scaled | string | binary | temperature | version | cct | lightDist
  | custom (q : String)
  deriving DecidableEq, Repr

inductive ValidImpl where
  | always | numeric | binary | cct | custom (q : String)
  deriving DecidableEq, Repr

inductive CheckImpl where
  | base | scaled | custom (q : String)
  deriving DecidableEq, Repr

inductive V2RImpl where
  | base | numeric | string | custom (q : String)
  deriving DecidableEq, Repr

structure Bank where
  key : String
  address : Nat
  /-- default of location 0 (address of the last accessible location) -/
  lastAddress : Option Nat
  hasLock : Bool
  hasLatch : Bool
  /-- `bank.locations`: every occupied address with the name of the value that owns it -/
  occupied : List (Nat × String)
  deriving DecidableEq, Repr

structure MemValue where
  name : String
  module : String
  bank : String
  locs : List Loc
  r2v : R2VImpl
  valid : ValidImpl
  check : CheckImpl
  v2r : V2RImpl
  fromListBase : Bool
  maskSupported : Bool
  tmaskSupported : Bool
  signed : Bool
  minValue : Option Int
  maxValue : Option Int
  /-- `scaling_factor` = `scaleMant · 10^scaleExp`; `scaleIsDecimal` = it is a `Decimal` -/
  scaleMant : Int
  scaleExp : Int
  scaleIsDecimal : Bool
  offset : Int
  maskLengthAdjust : Int
  /-- the byte patterns the metaclass computed (`none` when not supported) -/
  mask : Option (List Nat)
  tmask : Option (List Nat)
  deriving Repr

inductive Flag where
  | MASK | TMASK | Invalid
  deriving DecidableEq, Repr

/-- the result of interpreting raw bytes.  `dec m e` is the `Decimal` `m · 10^e`
(compared up to normalisation); `text` a fixed label of the library, `ascii`
a decoded string given by its character codes; `bytes` the raw bytes handed
back unchanged. -/
inductive MVal where
  | int (i : Int)
  | dec (mant : Int) (exp : Int)
  | text (s : String)
  | ascii (codes : List Nat)
  | bool (b : Bool)
  | bytes (l : List Nat)
  | flag (f : Flag)
  deriving DecidableEq, Repr

end DaliVerif.Mem
