import DaliVerif.Model.PyInt
import DaliVerif.Model.Frame
/-!
# `dali/frame.py` at the level of Python integers

Compact forms of the integer-only operations of `Frame`, written in the vocabulary the source translator
prints (`pyAnd`, `pyShl`, … on `Int`).  Two families of theorems meet here:

* `Tie/Frame.lean` proves that the definitions **regenerated from the source on every run**
  (`Gen/SrcFrame.lean`) equal these forms for all integers (a case analysis over the traced paths);
* `Proofs/FrameI.lean` proves, once, that these forms equal the hand-written model `Model/Frame.lean`
  (which works on `Nat` fields and `PyVal` operands) — the bit-vector bridge.
-/
namespace DaliVerif.FrameI

def hi (a b : Int) : Int := if b > a then b else a
def lo (a b : Int) : Int := if b < a then b else a

/-- `Frame(bits, data)`: the fields stored -/
def init (bits data : Int) : Except PyErr (Int × Int) :=
  if bits < 1 then .error .ValueError
  else if data < 0 then .error .ValueError
  else if (bitLength data : Int) > bits then .error .ValueError
  else .ok (bits, data)

def sliceCheck (bits a b : Int) : Option PyErr :=
  if hi a b < 0 ∨ lo a b < 0 then some .IndexError
  else if hi a b ≥ bits ∨ lo a b ≥ bits then some .IndexError
  else none

/-- `frame[a:b]` -/
def getSlice (bits data a b : Int) : Except PyErr Int :=
  match sliceCheck bits a b with
  | some e => .error e
  | none => .ok (pyAnd (pyShr data (lo a b)) (pyShl 1 (hi a b + 1 - lo a b) - 1))

/-- `frame[k]` -/
def getBit (bits data k : Int) : Except PyErr Bool :=
  if k < 0 ∨ k ≥ bits then .error .IndexError
  else .ok (decide (pyAnd data (pyShl 1 k) ≠ 0))

/-- `frame[a:b] = v` -/
def setSlice (bits data a b v : Int) : Except PyErr (Int × Int) :=
  match sliceCheck bits a b with
  | some e => .error e
  | none =>
    if (bitLength v : Int) > hi a b + 1 - lo a b then .error .ValueError
    else if v < 0 then .error .ValueError
    else .ok (bits, pyOr (pyAnd data (pyXor (pyShl 1 bits - 1)
                (pyShl (pyShl 1 (hi a b + 1 - lo a b) - 1) (lo a b)))) (pyShl v (lo a b)))

/-- `frame[k] = v` (truth value of the integer `v`) -/
def setBit (bits data k v : Int) : Except PyErr (Int × Int) :=
  if k < 0 ∨ k ≥ bits then .error .IndexError
  else if v ≠ 0 then .ok (bits, pyOr data (pyShl 1 k))
  else .ok (bits, pyAnd data (pyXor (pyShl 1 bits - 1) (pyShl 1 k)))

def containsTrue (_bits data : Int) : Except PyErr Bool := .ok (decide (data ≠ 0))

def containsFalse (bits data : Int) : Except PyErr Bool :=
  if bits < 0 then .error .ValueError else .ok (decide (data ≠ pyShl 1 bits - 1))

/-- `frame + frame`: any failure of the constructor is reported as TypeError -/
def add (b1 d1 b2 d2 : Int) : Except PyErr (Int × Int) :=
  if b2 < 0 then .error .TypeError
  else match init (b1 + b2) (pyOr (pyShl d1 b2) d2) with
    | .ok r => .ok r
    | .error _ => .error .TypeError

def eq (b1 d1 b2 d2 : Int) : Except PyErr Bool := .ok (decide (b1 = b2 ∧ d1 = d2))
def ne (b1 d1 b2 d2 : Int) : Except PyErr Bool := .ok (decide (b1 ≠ b2 ∨ d1 ≠ d2))

end DaliVerif.FrameI
