import DaliVerif.Model.Conn
/-!
# Abstract interleaving semantics of the asyncio drivers (C15, C17)

Any number of *tasks* (callers) each run a straight-line *program* of atomic
actions; every action that can raise or be cancelled carries the clean-up the
Python code performs on that exit (`finally`, `async with`).  Shared state:
one transaction lock, one inner serialiser of capacity `cap` (Tridonic
semaphore(2); hasseb command lock, LUBA/SCI tx lock: 1), the table of
outstanding sequence numbers, a mailbox of gateway reports, the connection
machine of `Model/Conn.lean`, and the log of lock/wire events.

`step? s l` performs one labelled step, `none` when the label is not enabled.
A *schedule* is a list of labels; the theorems quantify over every schedule.
The model is deliberately more permissive than asyncio (any waiter may win a
free lock, environment events may fall between any two actions): every real
interleaving is one of the model's, not vice versa.
-/
namespace DaliVerif.Async
open DaliVerif.Conn

abbrev Tid := Nat

/-- a frame as it goes to the gateway; `dt` is the device type the *command*
needs (ghost tag from the caller's command, 0 = none) -/
structure WFrame where
  bits : Nat
  data : Nat
  twice : Bool
  dt : Nat
  deriving DecidableEq, Repr

/-- `EnableDeviceType(d)` -/
def edtFrame (d : Nat) : WFrame := ⟨16, 0xC100 + d, false, 0⟩

inductive Msg | echo | answer | confirm | fail
  deriving DecidableEq, Repr

inductive Err | comm | timeout | io | cancelled | boom | assertion | oserror | unsupported
  deriving DecidableEq, Repr

inductive Act
  | acq | rel                 -- transaction_lock
  | iacq | irel               -- inner serialiser
  | slot | unslot             -- _outstanding[seq] = … / removal (tolerant: `pop`)
  | connWait                  -- HID: await self.connected.wait()
  | connCheck                 -- serial: raise IOError unless connected
  | write (f : WFrame)
  | await (m : Msg) (timed : Bool)
  | flush                     -- hasseb: _response_available.clear()
  | flush1                    -- LUBA: reset_dali_response() discards every stale backward frame (SCI uses `flush`:
                              -- it discards the stale information frames, i.e. confirmations, as well)
  | poll                      -- serial: wait for the backward frame up to timeout_rx ("no answer" on timeout)
  | sleep                     -- sequences.sleep
  | resume                    -- seq.send(response): the generator runs to its next yield (may raise)
  | close                     -- seq.close()
  | refuse                    -- HID `_send_raw`: `raise UnsupportedFrameTypeError` before anything else happens
                              -- (a frame length the gateway cannot carry); never completes normally
  deriving DecidableEq, Repr

/-- actions during which an exception can surface or a cancellation can land -/
def Act.canRaise : Act → Bool
  | .acq | .iacq | .connWait | .connCheck | .write _ | .await _ _ | .poll | .sleep | .resume | .refuse => true
  | _ => false

/-- actions at which `CommunicationError` arises (inside the HID send loop) -/
def Act.canComm : Act → Bool
  | .write _ | .await _ _ => true
  | _ => false

/-- synchronous clean-up actions (never block, never raise) -/
def Act.isCleanup : Act → Bool
  | .rel | .irel | .unslot | .close => true
  | _ => false

structure Step where
  act : Act
  /-- clean-up executed when this step raises out of the call or is cancelled -/
  h : List Act := []
  /-- clean-up executed when this step raises CommunicationError and the send loop retries -/
  hr : List Act := []
  deriving DecidableEq, Repr

def plain (l : List Act) : List Step := l.map (fun a => { act := a })

structure Task where
  prog : List Step
  /-- body of the HID `while not command_sent` loop when `exceptions` is off -/
  retry : Option (List Step) := none
  /-- exception on its way out (the clean-up is still running / has run) -/
  exc : Option Err := none
  /-- sequence number of the slot this task registered last (0 = none / other gateways) -/
  tag : Nat := 0
  deriving Repr

def Task.finished (t : Task) : Bool := t.prog.isEmpty

inductive Ev | acq | rel | write (f : WFrame)
  deriving DecidableEq, Repr

structure St where
  cap : Nat
  tasks : List Task := []
  lock : Option Tid := none
  inner : List Tid := []
  slots : List (Nat × Tid) := []
  seq : Nat := 1
  mail : List (Nat × Msg) := []
  conn : Conn
  /-- lock and wire events, NEWEST FIRST (ghost) -/
  log : List (Tid × Ev) := []
  deriving Repr

def nextSeq (n : Nat) : Nat := if n + 1 > 0xff then 1 else n + 1

def St.owners (s : St) : List Tid := s.slots.map (·.2)

def wireOf : List (Tid × Ev) → List (Tid × WFrame)
  | [] => []
  | (t, .write f) :: l => (t, f) :: wireOf l
  | _ :: l => wireOf l

/-- the wire trace in the order the gateway saw it -/
def St.wire (s : St) : List (Tid × WFrame) := (wireOf s.log).reverse

/-- first mailbox entry carrying `tag` that `sel` accepts, and the mailbox without it -/
def takeMail (tag : Nat) (sel : Msg → Bool) : List (Nat × Msg) → Option (Msg × List (Nat × Msg))
  | [] => none
  | (g, m) :: l =>
    if g = tag ∧ sel m then some (m, l)
    else match takeMail tag sel l with
      | some (m', l') => some (m', (g, m) :: l')
      | none => none

/-- what a task waiting for `m` takes out of the mailbox: a Tridonic command (tag ≠ 0) pops
its own list of messages in order; the other gateways keep one queue per kind -/
def awaitSel (tag : Nat) (m : Msg) : Msg → Bool :=
  fun x => tag ≠ 0 || x == m || x == .fail

/-- effect of `disconnect()`'s `_shutdown_device` on the in-flight commands:
every outstanding slot gets a "fail", the table is emptied; hasseb (tag 0,
no table) gets its `_response = "fail"` -/
def shutdown (s : St) : St :=
  { s with mail := s.mail ++ s.slots.map (fun (q, _) => (q, Msg.fail)) ++ [(0, Msg.fail)], slots := [] }

def setTask (s : St) (t : Tid) (tk : Task) : St := { s with tasks := s.tasks.set t tk }

/-- the next action of task `t` completes normally -/
def actStep (s : St) (t : Tid) : Option St :=
  match s.tasks[t]? with
  | some tk =>
    match tk.prog with
    | [] => none
    | st :: rest =>
      let adv : St := setTask s t { tk with prog := rest }
      match st.act with
      | .acq => if s.lock = none then some { adv with lock := some t, log := (t, .acq) :: s.log } else none
      | .rel => some { adv with lock := none, log := (t, .rel) :: s.log }
      | .iacq => if s.inner.length < s.cap then some { adv with inner := t :: s.inner } else none
      | .irel => some { adv with inner := s.inner.filter (· ≠ t) }
      | .slot =>
        if s.slots.any (·.1 = s.seq) then none      -- the `assert seq not in self._outstanding`
        else some { setTask s t { tk with prog := rest, tag := s.seq } with
                    slots := (s.seq, t) :: s.slots, seq := nextSeq s.seq }
      | .unslot => some { adv with slots := s.slots.filter (·.2 ≠ t) }
      | .connWait => if s.conn.up then some adv else none
      | .connCheck => if s.conn.up then some adv else none
      | .write f => if s.conn.fd then some { adv with log := (t, .write f) :: s.log } else none
      | .await m _ =>
        match takeMail tk.tag (awaitSel tk.tag m) s.mail with
        | some (m', mail') => if m' = m then some { adv with mail := mail' } else none
        | none => none
      | .flush => some { adv with mail := s.mail.filter (·.1 ≠ 0) }
      | .flush1 => some { adv with mail := s.mail.filter (fun p => !(p.1 == 0 && p.2 == Msg.answer)) }
      | .poll =>
        match takeMail 0 (· == .answer) s.mail with
        | some (_, mail') => some { adv with mail := mail' }
        | none => some adv
      | .sleep => some adv
      | .resume => some adv
      | .close => some adv
      | .refuse => none                    -- the only way past a refusal is the exception
  | none => none

/-- the next action of task `t` raises `e` (`cancelled` = the task is cancelled while blocked
there).  A failing `os.write` is the pair `env lose` (the driver's `disconnect(reconnect=True)`
with its `_shutdown_device`) followed by `raise t comm`. -/
def raiseStep (s : St) (t : Tid) (e : Err) : Option St :=
  match s.tasks[t]? with
  | some tk =>
    match tk.prog with
    | [] => none
    | st :: _ =>
      if !st.act.canRaise then none else
      match e, tk.retry with
      | .comm, some body =>
        if st.act.canComm then some (setTask s t { tk with prog := plain st.hr ++ body })
        else none
      | _, _ => some (setTask s t { tk with prog := plain st.h, exc := some e })
  | none => none

inductive Label
  | spawn (tk : Task)
  | act (t : Tid)
  | raise (t : Tid) (e : Err)
  | deliver (tag : Nat) (m : Msg)
  | env (e : Conn.Ev)
  deriving Repr

def step? (s : St) : Label → Option St
  | .spawn tk => some { s with tasks := s.tasks ++ [tk] }
  | .act t => actStep s t
  | .raise t e => raiseStep s t e
  | .deliver tag m =>
    -- Tridonic routes by sequence number and drops what nobody waits for; the others queue
    if tag = 0 ∨ s.slots.any (·.1 = tag) then some { s with mail := s.mail ++ [(tag, m)] }
    else some s
  | .env e =>
    match Conn.step s.conn e with
    | some c' => if e = .lose then some (shutdown { s with conn := c' }) else some { s with conn := c' }
    | none => none

def run? : St → List Label → Option St
  | s, [] => some s
  | s, l :: ls => match step? s l with | some s' => run? s' ls | none => none

/-! ## static well-formedness of programs (what the Python text guarantees) -/

structure Res where
  lock : Bool
  inner : Bool
  slot : Bool
  deriving DecidableEq, Repr

def Res.free (r : Res) : Bool := !r.lock && !r.inner && !r.slot
def Res.ok (r : Res) : Bool := (!r.slot || r.inner) && (!r.inner || r.lock)

/-- resource effect of an action in program order; `none` = the program text is ill-bracketed -/
def Act.eff (r : Res) : Act → Option Res
  | .acq => if r.lock then none else some { r with lock := true }
  | .rel => if r.lock && !r.inner && !r.slot then some { r with lock := false } else none
  | .iacq => if r.lock && !r.inner then some { r with inner := true } else none
  | .irel => if r.inner && !r.slot then some { r with inner := false } else none
  | .slot => if r.inner && !r.slot then some { r with slot := true } else none
  | .unslot => some { r with slot := false }
  | .write _ => if r.lock && r.inner then some r else none
  | .sleep => if r.lock then some r else none
  | _ => some r

def runActs : Res → List Act → Option Res
  | r, [] => some r
  | r, a :: l => match a.eff r with | some r' => runActs r' l | none => none

def cleanupOK (r : Res) (h : List Act) : Bool :=
  h.all Act.isCleanup && (match runActs r h with | some r' => r'.free | none => false)

/-- the loop head of the HID send loop: transaction lock held, nothing else -/
def loopHead : Res := ⟨true, false, false⟩

def retryOK (r : Res) (hr : List Act) : Bool :=
  hr.all Act.isCleanup && (match runActs r hr with | some r' => r' == loopHead | none => false)

/-- checks of one step against the resources held before it -/
def stepOK (hasRetry : Bool) (r : Res) (st : Step) : Bool :=
  (!st.act.canRaise || cleanupOK r st.h) && (!(hasRetry && st.act.canComm) || retryOK r st.hr)

/-- run the static check over a program segment; the resources held after it -/
def wfSeg (hasRetry : Bool) : Res → List Step → Option Res
  | r, [] => some r
  | r, st :: p =>
    if stepOK hasRetry r st then
      match st.act.eff r with
      | some r' => wfSeg hasRetry r' p
      | none => none
    else none

/-- a whole program: every exit, normal or exceptional, leaves nothing held -/
def wf (hasRetry : Bool) (r : Res) (p : List Step) : Bool :=
  match wfSeg hasRetry r p with
  | some r' => r'.free
  | none => false

/-- every device-type frame follows its EnableDeviceType within the same locked
region; returns the last frame written in the current region -/
def edtSeg : Option WFrame → List Step → Option (Option WFrame)
  | prev, [] => some prev
  | prev, st :: p =>
    match st.act with
    | .write f => if f.dt == 0 || prev == some (edtFrame f.dt) then edtSeg (some f) p else none
    | .acq => edtSeg none p
    | .rel => edtSeg none p
    | _ => edtSeg prev p

def edtOK (prev : Option WFrame) (p : List Step) : Bool := (edtSeg prev p).isSome

def Task.ok (tk : Task) : Bool :=
  wf tk.retry.isSome ⟨false, false, false⟩ tk.prog && edtOK none tk.prog && tk.exc.isNone &&
  (match tk.retry with
   | some b => wf true loopHead b && edtOK none b
   | none => true)

end DaliVerif.Async
