import DaliVerif.Model.Async
/-!
# The observable protocol of one caller, per driver, as the code writes it

`send` and `run_sequence` of `dali/driver/hid.py` (`hid`, `tridonic`, `hasseb`)
and `dali/driver/serial.py` (`DriverSerialBase`, `DriverLubaRs232`,
`DriverSCIRS232`) unrolled into straight-line programs over `Async.Act`, each
raising/cancellable step carrying the clean-up its `finally` / `async with`
blocks perform.  This is the REPAIRED code (F8: a cancelled Tridonic wait
removes its `_outstanding` entry; K1: serial `send` emits EnableDeviceType;
K3: hasseb write errors become CommunicationError; K6: SCI `send` flushes before the prefix too); `…Old` variants keep the
unchanged tree's shape for the witnesses in `Props/`.
-/
namespace DaliVerif.Async

inductive Driver | tridonic | hasseb | luba | sci
  deriving DecidableEq, Repr

structure Cmd where
  frame : WFrame
  /-- the command expects a backward frame (`command.response` / `is_query`) -/
  query : Bool
  deriving DecidableEq, Repr

inductive Item | cmd (c : Cmd) | sleep | progress
  deriving DecidableEq, Repr

inductive Call
  | send (c : Cmd) (exceptions : Bool)
  | seq (items : List Item)
  deriving Repr

def Driver.cap : Driver → Nat
  | .tridonic => 2
  | _ => 1

/-- `tridonic._send_raw(f)`; `out` = the caller's clean-up outside `_send_raw`;
`fixed = false` reproduces F8 (no `unslot` when the wait is cancelled) -/
def tridonicRaw (fixed : Bool) (f : WFrame) (out : List Act) : List Step :=
  let hIn : List Act := (if fixed then [Act.unslot] else []) ++ [Act.irel] ++ out
  let hrIn : List Act := [Act.unslot, Act.irel]
  let wait (m : Msg) : Step := { act := .await m false, h := hIn, hr := hrIn }
  [ { act := .connWait, h := out }, { act := .iacq, h := out }, { act := .slot },
    { act := .write f, h := [Act.unslot, Act.irel] ++ out, hr := hrIn } ] ++
  (if f.twice then [wait .echo, wait .echo] else [wait .echo]) ++
  [ wait .answer, { act := .unslot }, { act := .irel } ]

/-- `hasseb._send_raw(f)` -/
def hassebRaw (f : WFrame) (query : Bool) (out : List Act) : List Step :=
  let w : Step := { act := .write f, h := Act.irel :: out, hr := [Act.irel] }
  [ { act := .connWait, h := out }, { act := .iacq, h := out } ] ++
  -- the repeated copy of a send-twice frame belongs to the same command: no second enable
  (if f.twice then [w, { w with act := .write { f with dt := 0 } }] else [w]) ++ [ { act := .flush } ] ++
  (if query then [ { act := .await .answer false, h := Act.irel :: out, hr := [Act.irel] } ] else []) ++
  [ { act := .irel } ]

/-- `LubaProtocol.send_dali_command` / `SCIRS232Protocol.send_dali_command`:
tx lock, write, confirmation(s) with `timeout_tx_confirm` -/
def serialCommand (d : Driver) (f : WFrame) (out : List Act) : List Step :=
  let c : Step := { act := .await .confirm true, h := Act.irel :: out }
  [ { act := .iacq, h := out }, { act := .write f, h := Act.irel :: out } ] ++
  (if d = .luba ∧ f.twice then [c, c] else [c]) ++ [ { act := .irel } ]

/-- body of the serial `send(msg, in_transaction)` below the lock -/
def serialSendBody (d : Driver) (c : Cmd) (out : List Act) : List Step :=
  [ { act := if d = .sci then .flush else .flush1 } ] ++ serialCommand d c.frame out ++
  (if c.query then [ { act := .poll, h := out } ] else [])

/-- frame lengths the HID gateways carry (`_send_raw` refuses the others first thing) -/
def Driver.carries (d : Driver) (f : WFrame) : Bool :=
  match d with
  | .tridonic => f.bits == 16 || f.bits == 24
  | .hasseb => f.bits == 16
  | _ => true

def rawSend (d : Driver) (c : Cmd) (out : List Act) : List Step :=
  if !d.carries c.frame then [ { act := .refuse, h := out } ] else
  match d with
  | .tridonic => tridonicRaw true c.frame out
  | .hasseb => hassebRaw c.frame c.query out
  | _ => { act := .connCheck, h := out } :: serialSendBody d c out

def edtCmd (dt : Nat) : Cmd := ⟨edtFrame dt, false⟩

/-- `(EnableDeviceType)? · command` as `send` / `run_sequence` emit it -/
def withEdt (d : Driver) (c : Cmd) (out : List Act) : List Step :=
  (if c.frame.dt = 0 then [] else rawSend d (edtCmd c.frame.dt) out) ++ rawSend d c out

def itemSteps (d : Driver) (out : List Act) : Item → List Step
  | .cmd c => withEdt d c out
  | .sleep => [ { act := .sleep, h := out } ]
  | .progress => []

def seqBody (d : Driver) (out : List Act) : List Item → List Step
  | [] => [ { act := .resume, h := out } ]          -- StopIteration: return r.value
  | it :: l => { act := .resume, h := out } :: itemSteps d out it ++ seqBody d out l

/-- what the serial `send` does in front of the EnableDeviceType prefix: SCI discards every stale report first
(K6: a leftover information frame would be taken for the prefix's confirmation); LUBA confirmations name their
frame, nothing is discarded there -/
def prefixFlush (d : Driver) : List Step := if d = .sci then [ { act := .flush } ] else []

/-- serial `send`: EnableDeviceType is emitted directly through the protocol (no second connCheck) -/
def serialSend (c : Cmd) (d : Driver) : List Step :=
  [ { act := .connCheck }, { act := .acq } ] ++
  (if c.frame.dt = 0 then [] else prefixFlush d ++ serialCommand d (edtFrame c.frame.dt) [Act.rel]) ++
  serialSendBody d c [Act.rel] ++ [ { act := .rel } ]

def mkTask (d : Driver) : Call → Task
  | .send c exc =>
    match d with
    | .tridonic | .hasseb =>
      let body := withEdt d c [Act.rel] ++ [ { act := .rel } ]
      { prog := { act := .acq } :: body, retry := if exc then none else some body }
    | _ => { prog := serialSend c d }
  | .seq items =>
    match d with
    | .tridonic | .hasseb =>
      -- finally: transaction_lock.release(); seq.close()
      { prog := { act := .acq } :: seqBody d [Act.rel, Act.close] items ++ [ { act := .rel }, { act := .close } ] }
    | _ =>
      -- async with transaction_lock: try … finally: seq.close()
      { prog := { act := .acq } :: seqBody d [Act.close, Act.rel] items ++ [ { act := .close }, { act := .rel } ] }

/-! ## the unchanged tree (for the witnesses) -/

/-- F8: Tridonic `send` whose cancelled wait keeps its `_outstanding` entry -/
def mkTaskOldTridonicSend (c : Cmd) : Task :=
  { prog := { act := .acq } :: (tridonicRaw false c.frame [Act.rel] ++ [ { act := .rel } ]) }

/-- K1: serial `send` without EnableDeviceType -/
def mkTaskOldSerialSend (d : Driver) (c : Cmd) : Task :=
  { prog := [ { act := .connCheck }, { act := .acq } ] ++ serialSendBody d c [Act.rel] ++ [ { act := .rel } ] }

end DaliVerif.Async
