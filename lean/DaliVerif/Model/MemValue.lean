import DaliVerif.Model.MemValueTypes
/-!
# Model of the pure value interpretation of `dali/memory/*.py`

`check_raw`, `is_valid`, `raw_to_value`, `value_to_raw`, `from_list`, selected
by which Python function implements them for the value class and reading the
class data the Python reads (`mask`/`tmask` are the byte patterns the
metaclass computed).  Same order of checks.  Raw data is a list of byte
values (`< 256`).  An implementor the model does not know answers `none`.
-/
namespace DaliVerif.Mem

/-- `int.from_bytes(raw, 'big')` -/
def beNat : List Nat → Nat
  | l => l.foldl (fun acc b => acc * 256 + b) 0

/-- `int.from_bytes(raw, 'big', signed=s)` -/
def fromBytes (signed : Bool) (raw : List Nat) : Int :=
  let n : Int := beNat raw
  if signed && decide (128 ≤ raw.headD 0) then n - (256 : Int) ^ raw.length else n

/-- `n.to_bytes(len, 'big')`, low `len` bytes most significant first -/
def toBytes : Nat → Nat → List Nat
  | _, 0 => []
  | n, len + 1 => toBytes (n / 256) len ++ [n % 256]

/-- `NumericValue.is_valid` -/
def numericValid (v : MemValue) (raw : List Nat) : Bool :=
  let trial := fromBytes v.signed raw
  (match v.minValue with | some m => !(decide (trial < m)) | none => true) &&
  (match v.maxValue with | some m => !(decide (trial > m)) | none => true)

/-- `is_valid`; `raw[0]` of an empty string is an `IndexError` -/
def isValid (v : MemValue) (raw : List Nat) : Option (PyRes Bool) :=
  match v.valid with
  | .always => some (.ok true)
  | .numeric => some (.ok (numericValid v raw))
  | .binary =>
    some (match raw with
      | [] => .error .IndexError
      | b :: _ => .ok (b == 0 || b == 1))
  | .cct => some (.ok (if raw = [0xff, 0xfe] then true else numericValid v raw))
  | .custom _ => none

/-- `MemoryValue.check_raw`: MASK, then TMASK, then validity -/
def checkRawBase (v : MemValue) (raw : List Nat) : Option (PyRes (Option Flag)) :=
  if v.maskSupported && v.mask == some raw then some (.ok (some .MASK))
  else if v.tmaskSupported && v.tmask == some raw then some (.ok (some .TMASK))
  else match isValid v raw with
    | none => none
    | some (.error e) => some (.error e)
    | some (.ok true) => some (.ok none)
    | some (.ok false) => some (.ok (some .Invalid))

/-- `check_raw` -/
def checkRaw (v : MemValue) (raw : List Nat) : Option (PyRes (Option Flag)) :=
  match v.check with
  | .base => checkRawBase v raw
  | .scaled =>
    match raw with
    | [] => some (.error .IndexError)
    | s :: rest =>
      if s > 6 ∧ s < 0xfa then some (.ok (some .Invalid)) else checkRawBase v rest
  | .custom _ => none

/-- `raw.split(b'\x00')[0]` -/
def untilNul : List Nat → List Nat
  | [] => []
  | b :: rest => if b = 0 then [] else b :: untilNul rest

/-- the `Decimal` `m · 10^e` times an integer -/
def lightDistName (b : Nat) : String :=
  if b = 0 then "not specified" else if b = 1 then "Type I" else if b = 2 then "Type II"
  else if b = 3 then "Type III" else if b = 4 then "Type IV" else if b = 5 then "Type V"
  else "reserved"

def versionText (raw : List Nat) : String := ".".intercalate (raw.map toString)

/-- `raw_to_value` -/
def rawToValue (v : MemValue) (raw : List Nat) : Option (PyRes MVal) :=
  match v.r2v with
  | .plain => some (.ok (.bytes raw))
  | .numeric => some (.ok (.int (fromBytes v.signed raw)))
  | .fixedScale =>
    let n := fromBytes v.signed raw
    some (.ok (if v.scaleIsDecimal then .dec (v.scaleMant * n) v.scaleExp else .int (v.scaleMant * n)))
  | .scaled =>
    -- pow(Decimal(10), signed first byte) * unsigned rest
    some (.ok (.dec (beNat raw.tail) (fromBytes true (raw.take 1))))
  | .string =>
    let s := untilNul raw
    some (.ok (if s.all (· < 128) then .ascii s else .flag .Invalid))
  | .binary =>
    some (match raw with
      | [] => .error .IndexError
      | b :: _ => .ok (.bool (b == 1)))
  | .temperature => some (.ok (.int ((beNat raw : Int) - v.offset)))
  | .version =>
    some (.ok (if raw.length = 1 then
        let n := fromBytes v.signed raw
        if n = 0xff then .text "not implemented"
        else .text (toString (n / 4) ++ "." ++ toString (n % 4))
      else .text (versionText raw)))
  | .cct =>
    some (.ok (if raw = [0xff, 0xfe] then .text "Part 209 implemented"
               else .int (fromBytes v.signed raw)))
  | .lightDist =>
    some (match raw with
      | [] => .error .IndexError
      | b :: _ => .ok (.text (lightDistName b)))
  | .custom _ => none

/-- `cls.check_raw(raw) or cls.raw_to_value(raw)` (a `FlagValue` is truthy) -/
def interpret (v : MemValue) (raw : List Nat) : Option (PyRes MVal) :=
  match checkRaw v raw with
  | none => none
  | some (.error e) => some (.error e)
  | some (.ok (some f)) => some (.ok (.flag f))
  | some (.ok none) => rawToValue v raw

/-- `from_list`: the bytes of the value's locations out of a whole-bank list
(`None` / too short a list: `MemoryLocationNotImplemented`), then `interpret` -/
def gather : List Loc → List (Option Nat) → PyRes (List Nat)
  | [], _ => .ok []
  | l :: rest, lst =>
    match lst[l.addr]? with
    | some (some b) =>
      match gather rest lst with
      | .ok bs => .ok (b :: bs)
      | .error e => .error e
    | _ => .error .MemoryLocationNotImplemented

def fromList (v : MemValue) (lst : List (Option Nat)) : Option (PyRes MVal) :=
  if !v.fromListBase then none else
  match gather v.locs lst with
  | .error e => some (.error e)
  | .ok raw => interpret v raw

/-- an argument of `value_to_raw` -/
inductive WVal where
  | int (i : Int)
  | bool (b : Bool)
  /-- a `str` given by its code points -/
  | str (codes : List Nat)
  | other
  deriving DecidableEq, Repr

def codesOf (s : String) : List Nat := s.toList.map Char.toNat

/-- `value.to_bytes(n, 'big', signed=s)`: `OverflowError` when it does not fit -/
def intToBytes (signed : Bool) (n : Nat) (x : Int) : PyRes (List Nat) :=
  if signed then
    if n = 0 then (if x = 0 then .ok [] else .error .OverflowError)
    else if -((256 : Int) ^ n / 2) ≤ x ∧ x < (256 : Int) ^ n / 2 then
      .ok (toBytes (x % (256 : Int) ^ n).toNat n)
    else .error .OverflowError
  else
    if 0 ≤ x ∧ x < (256 : Int) ^ n then .ok (toBytes x.toNat n) else .error .OverflowError

/-- `value_to_raw` -/
def valueToRaw (v : MemValue) (x : WVal) : Option (PyRes (List Nat)) :=
  let n := v.locs.length
  match v.v2r with
  | .base => some (.error .ValueError)
  | .numeric =>
    some (
      if v.maskSupported && x == .str [77, 65, 83, 75] then
        (match v.mask with | some m => .ok m | none => .error .AttributeError)
      else if v.tmaskSupported && x == .str [84, 77, 65, 83, 75] then
        (match v.tmask with | some m => .ok m | none => .error .AttributeError)
      else match x with
        | .int i => intToBytes v.signed n i
        | .bool b => intToBytes v.signed n (if b then 1 else 0)
        | _ => .error .ValueError)
  | .string =>
    some (match x with
      | .str codes =>
        -- `encode('ascii')`: UnicodeEncodeError is a ValueError
        if !codes.all (· < 128) then .error .ValueError
        else if codes.length > n then .error .ValueError
        else if codes.length < n then .ok (codes ++ [0])
        else .ok codes
      | _ => .error .AttributeError)
  | .custom _ => none

end DaliVerif.Mem
