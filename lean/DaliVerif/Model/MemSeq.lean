import DaliVerif.Model.DevMemProg
/-!
# Model of the memory sequences of `dali/memory/location.py` (C09, C10)

`MemoryValue.read_raw`, `MemoryBank.read_all` (with the F3 repair: ENABLE WRITE
MEMORY before the un-latch write, and the K2 repair: un-latch before a framing
error is raised), `MemoryValue.from_list`, `MemoryValue.write_raw`.  Same order
of checks, same exception classes, same local `dtr0` tracking.

The value *interpretation* (`check_raw`, `raw_to_value`, `value_to_raw`) is
C11's; here a value is its declaration: bank, ordered locations, access types.
-/
namespace DaliVerif.DevMem

inductive MemType where
  | ROM | RAM_RO | RAM_RW | NVM_RO | NVM_RW | NVM_RW_L | NVM_RW_P
  deriving DecidableEq, Repr, Inhabited

def MemType.writeable : MemType → Bool
  | .RAM_RW | .NVM_RW | .NVM_RW_L | .NVM_RW_P => true
  | _ => false

/-- a declared memory value: `cls.bank.address`, `cls.locations` (address, type_) in order -/
structure ValueDecl where
  name : String
  bankKey : String
  bank : Nat
  locs : List (Nat × MemType)
  deriving Repr, DecidableEq

def ValueDecl.addrs (v : ValueDecl) : List Nat := v.locs.map (·.1)

/-- a declared bank: `MemoryBank(address, last_address, has_lock, has_latch)` and its values
(including the implicit `LastAddress` and `LockByte`) -/
structure BankDecl where
  key : String
  address : Nat
  lastAddress : Nat
  hasLock : Bool
  hasLatch : Bool
  values : List ValueDecl
  deriving Repr

/-- the `addr` argument as the code distinguishes it -/
inductive AddrArg where
  | gearShort (a : Nat)
  | devShort (a : Nat)
  | int (i : Int)
  | other
  deriving DecidableEq, Repr

/-- `if isinstance(addr, int): addr = GearShort(addr) elif not isinstance(addr, (GearShort, DeviceShort)): raise TypeError` -/
def resolveAddr : AddrArg → PyRes (Bool × Nat)
  | .gearShort a => .ok (false, a)
  | .devShort a => .ok (true, a)
  | .int i => if 0 ≤ i ∧ i ≤ 63 then .ok (false, i.toNat) else .error .ValueError
  | .other => .error .TypeError

/-! ## read_raw -/

/-- the `for location in cls.locations` loop of `read_raw`; `d` is the local `dtr0` -/
def readLoop (dev : Bool) (a : Nat) : List Nat → Option Nat → List Nat → Prog (List Nat)
  | [], _, acc => .done acc
  | l :: ls, d, acc =>
    let body : Prog (List Nat) :=
      .send (.readMemoryLocation dev a) fun r =>
      match r with
      | .none => .fail .MemoryLocationNotImplemented
      | .err => .fail .ResponseError
      | .byte b => readLoop dev a ls (some (min (l + 1) 255)) (acc ++ [b])
    if d = some l then body else .send (.dtr0 dev l) fun _ => body

/-- `MemoryValue.read_raw(addr)` for a value in bank `bank` with location addresses `locs` -/
def readRaw (arg : AddrArg) (bank : Nat) (locs : List Nat) : Prog (List Nat) :=
  match resolveAddr arg with
  | .error e => .fail e
  | .ok (dev, a) => .send (.dtr1 dev bank) fun _ => readLoop dev a locs none []

/-! ## read_all -/

/-- the `for loc in range(start_address, last_address + 1)` loop: `n` reads.
With the K2 repair a framing error ends the loop and is reported after the un-latch. -/
def readAllLoop (dev : Bool) (a : Nat) : Nat → List (Option Nat) → Prog (List (Option Nat) × Bool)
  | 0, acc => .done (acc, false)
  | n + 1, acc =>
    .send (.readMemoryLocation dev a) fun r =>
    match r with
    | .none => readAllLoop dev a n (acc ++ [none])
    | .byte b => readAllLoop dev a n (acc ++ [some b])
    | .err => .done (acc, true)

/-- the reads of `read_all`, the un-latch (F3 repair: ENABLE WRITE MEMORY first; K2
repair: also on the framing-error exit) and the outcome -/
def readAllTail (dev : Bool) (a : Nat) (latch : Bool) (start last : Nat) : Prog (List (Option Nat)) :=
  (readAllLoop dev a (last + 1 - start) (List.replicate start none)).bind fun res =>
  let fin : Prog (List (Option Nat)) :=
    if res.2 then .fail .ResponseError else .done res.1
  if latch then
    .send (.enableWriteMemory dev a) fun _ =>
    .send (.dtr0 dev 2) fun _ =>
    .send (.writeMemoryLocationNoReply dev 0xFF) fun _ => fin
  else fin

/-- `read_all` after the last address is known: optional latch, DTR0 := start, reads -/
def readAllFrom (dev : Bool) (a bank : Nat) (latch : Bool) (last : Nat) : Prog (List (Option Nat)) :=
  let start := if bank = 0 then 2 else 3
  if latch then
    .send (.enableWriteMemory dev a) fun _ =>
    .send (.dtr0 dev 2) fun _ =>
    .send (.writeMemoryLocationNoReply dev 0xAA) fun _ =>
      if 3 ≠ start then .send (.dtr0 dev start) fun _ => readAllTail dev a latch start last
      else readAllTail dev a latch start last
  else
    if 1 ≠ start then .send (.dtr0 dev start) fun _ => readAllTail dev a latch start last
    else readAllTail dev a latch start last

/-- `read_all` for a resolved address: `LastAddress.read`, then the rest -/
def readAllBody (dev : Bool) (a bank : Nat) (hasLatch useLatch : Bool) : Prog (List (Option Nat)) :=
  (readRaw (if dev then .devShort a else .gearShort a) bank [0]).bind fun raw =>
  readAllFrom dev a bank (useLatch && hasLatch) (raw.headD 0)

/-- `MemoryBank.read_all(addr, use_latch)`; returns `raw_data` -/
def readAll (arg : AddrArg) (bank : Nat) (hasLatch : Bool) (useLatch : Bool) : Prog (List (Option Nat)) :=
  match resolveAddr arg with
  | .error e => .fail e
  | .ok (dev, a) => readAllBody dev a bank hasLatch useLatch

/-- `MemoryValue.from_list(list_)`: the raw bytes, or `MemoryLocationNotImplemented` -/
def fromList (raw : List (Option Nat)) : List Nat → Option (List Nat)
  | [] => some []
  | l :: ls =>
    match raw[l]? with
    | some (some b) => (fromList raw ls).map (b :: ·)
    | _ => none

/-! ## write_raw -/

/-- first exception of the pre-checks of `write_raw`, and whether unlocking is required -/
def writeChecks (locs : List (Nat × MemType)) (rawLen : Nat) (allowShort forceUnlock : Bool) :
    PyRes Bool :=
  if (if allowShort then rawLen > locs.length else rawLen ≠ locs.length) then .error .ValueError
  else if locs.any (fun l => !l.2.writeable) then .error .MemoryValueNotWriteable
  else .ok (forceUnlock || locs.any (fun l => l.2 == .NVM_RW_L))

/-- the `for location, value in zip(cls.locations, raw)` loop; returns the local `dtr0` -/
def writeLoop (dev : Bool) (ignoreFb : Bool) : List (Nat × Nat) → Option Nat → Prog (Option Nat)
  | [], d => .done d
  | (l, v) :: rest, d =>
    let body : Prog (Option Nat) :=
      if ignoreFb then
        .send (.writeMemoryLocationNoReply dev v) fun _ => writeLoop dev ignoreFb rest (some (min (l + 1) 255))
      else
        .send (.writeMemoryLocation dev v) fun r =>
        match r with
        | .none => .fail .MemoryLocationNotWriteable
        | .err => .fail .ResponseError
        | .byte b =>
          if b ≠ v then .fail .ResponseError
          else writeLoop dev ignoreFb rest (some (min (l + 1) 255))
    if d = some l then body else .send (.dtr0 dev l) fun _ => body

/-- `MemoryValue.write_raw(addr, raw, allow_short_write, force_unlock, ignore_feedback)` -/
def writeRaw (arg : AddrArg) (bank : Nat) (locs : List (Nat × MemType)) (raw : List Nat)
    (allowShort forceUnlock ignoreFb : Bool) : Prog Unit :=
  match resolveAddr arg with
  | .error e => .fail e
  | .ok (dev, a) =>
    match writeChecks locs raw.length allowShort forceUnlock with
    | .error e => .fail e
    | .ok unlock =>
      .send (.dtr1 dev bank) fun _ =>
      .send (.enableWriteMemory dev a) fun _ =>
      let relock : Prog Unit :=
        if unlock then
          .send (.dtr0 dev 2) fun _ => .send (.writeMemoryLocationNoReply dev 0xFF) fun _ => .done ()
        else .done ()
      let main (d : Option Nat) : Prog Unit :=
        (writeLoop dev ignoreFb ((locs.map (·.1)).zip raw) d).bind fun d' =>
        if ignoreFb then relock else
        .send (.queryContentDTR0 dev a) fun r =>
        match r with
        | .none => .fail .ResponseError
        | .err => .fail .ResponseError
        | .byte b => if some b ≠ d' then .fail .MemoryWriteFailure else relock
      if unlock then
        .send (.dtr0 dev 2) fun _ => .send (.writeMemoryLocationNoReply dev 0x55) fun _ => main (some 3)
      else main none

end DaliVerif.DevMem
