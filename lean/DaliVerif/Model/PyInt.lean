import DaliVerif.Model.Py
/-!
# Python's integer operators on `Int` (run-time library of the source translator)

The path-tracing translator (`tools/symtrace.py`, `tools/gen/src_*.py`) runs the real library code on symbolic
integers and prints every path as a Lean definition over `Int`.  `+ - *` and the comparisons are Lean's; the
operators below give Python's meaning to `& | ^ << >>` on *all* integers (two's complement with infinitely
many sign bits).  `pyShl`/`pyShr` are only ever printed under a path condition `0 ≤ n` (the tracer forks on a
negative shift count, which raises ValueError in Python).  `//` and `%` are printed as `Int.fdiv`/`Int.fmod`.
The generated file `Gen/SrcRuntime.lean` re-checks these definitions against CPython on a grid on every run.
-/
namespace DaliVerif

def pyAnd : Int → Int → Int
  | .ofNat m, .ofNat n => .ofNat (m &&& n)
  | .ofNat m, .negSucc n => .ofNat (m ^^^ (m &&& n))
  | .negSucc m, .ofNat n => .ofNat (n ^^^ (n &&& m))
  | .negSucc m, .negSucc n => .negSucc (m ||| n)

def pyOr : Int → Int → Int
  | .ofNat m, .ofNat n => .ofNat (m ||| n)
  | .ofNat m, .negSucc n => .negSucc (n ^^^ (n &&& m))
  | .negSucc m, .ofNat n => .negSucc (m ^^^ (m &&& n))
  | .negSucc m, .negSucc n => .negSucc (m &&& n)

def pyXor : Int → Int → Int
  | .ofNat m, .ofNat n => .ofNat (m ^^^ n)
  | .ofNat m, .negSucc n => .negSucc (m ^^^ n)
  | .negSucc m, .ofNat n => .negSucc (m ^^^ n)
  | .negSucc m, .negSucc n => .ofNat (m ^^^ n)

/-- `x << n` for `0 ≤ n` -/
def pyShl (x n : Int) : Int := x * 2 ^ n.toNat

/-- `x >> n` for `0 ≤ n` (floor) -/
def pyShr (x n : Int) : Int := x / 2 ^ n.toNat

@[simp] theorem pyAnd_ofNat (m n : Nat) : pyAnd (m : Int) (n : Int) = ((m &&& n : Nat) : Int) := rfl
@[simp] theorem pyOr_ofNat (m n : Nat) : pyOr (m : Int) (n : Int) = ((m ||| n : Nat) : Int) := rfl
@[simp] theorem pyXor_ofNat (m n : Nat) : pyXor (m : Int) (n : Int) = ((m ^^^ n : Nat) : Int) := rfl

@[simp] theorem pyShl_ofNat (m n : Nat) : pyShl (m : Int) (n : Int) = ((m <<< n : Nat) : Int) := by
  simp [pyShl, Nat.shiftLeft_eq]

@[simp] theorem pyShr_ofNat (m n : Nat) : pyShr (m : Int) (n : Int) = ((m >>> n : Nat) : Int) := by
  simp only [pyShr, Int.toNat_natCast, Nat.shiftRight_eq_div_pow]
  have : ((2 : Int) ^ n) = ((2 ^ n : Nat) : Int) := by simp
  rw [this, ← Int.natCast_ediv]

theorem one_shiftLeft_sub_one (w : Nat) : (((1 <<< w : Nat) : Int) - 1) = (((1 <<< w) - 1 : Nat) : Int) := by
  have : 1 ≤ 1 <<< w := by rw [Nat.one_shiftLeft]; exact Nat.two_pow_pos w
  omega

end DaliVerif
