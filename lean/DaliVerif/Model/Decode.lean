import DaliVerif.Model.CmdTypes
/-!
# Model of command decoding and construction

`decode` mirrors `Command.from_frame` and the `from_frame` class methods it
dispatches to (dali/command.py, gear/general.py, device/general.py,
pushbutton.py, occupancy.py, light.py); `encode` mirrors the constructors'
frame assembly including their argument checks, so that "decoding never fails
and the object's frame is the input" is the statement
`encode (decode T bits data dt m) = .ok ⟨bits, data⟩`.
-/
namespace DaliVerif.Cmd
open Frame

def slice (f : Frame) (hi lo : Nat) : Nat := getSliceRaw f.data hi lo
def bit (f : Frame) (i : Nat) : Bool := getBitRaw f.data i

/-! ## decoding -/

/-- `_StandardCommand.from_frame` -/
def stdFromFrame (T : Tables) (f : Frame) (dt : Nat) : Option Cmd :=
  if !bit f 8 then none else
  match Addr.fromFrame T.addrOrder f with
  | none => none
  | some addr =>
    let opcode := slice f 7 0
    match lookup T.stdOpcodes (dt, opcode) with
    | none => some (.unknownGear f.data)
    | some cc =>
      if cc.hasparam then some (.standard cc addr (opcode &&& 0x0f))
      else some (.standard cc addr 0)

/-- `DAPC.from_frame` -/
def dapcFromFrame (T : Tables) (f : Frame) : Option Cmd :=
  if bit f 8 then none else
  match Addr.fromFrame T.addrOrder f with
  | none => none
  | some addr => some (.dapc addr (slice f 7 0))

/-- the `from_frame` of the class found in `_SpecialCommand._opcodes` -/
def specialClassFromFrame (cc : SpecialClass) (f : Frame) : Option Cmd :=
  if slice f 15 8 != cc.cmdval then none else
  match cc.kind with
  | .plain =>
      if cc.hasparam then some (.special cc (slice f 7 0))
      else if slice f 7 0 == 0 then some (.special cc 0)
      else some (.unknownGear f.data)
  | .shortAddr =>
      if slice f 7 0 == 0xff then some (.shortSpecial cc none)
      else if !bit f 7 && bit f 0 then some (.shortSpecial cc (some (slice f 6 1)))
      else none
  | .initialise =>
      if slice f 7 0 == 0 then some (.initialise cc true none)
      else if slice f 7 0 == 0xff then some (.initialise cc false none)
      else if !bit f 7 && bit f 0 then some (.initialise cc false (some (slice f 6 1)))
      else none
  | .custom => none

/-- `_SpecialCommand.from_frame` (called on the base class) -/
def specialFromFrame (T : Tables) (f : Frame) : Option Cmd :=
  match lookup T.specialOpcodes (slice f 15 8) with
  | none => some (.unknownGear f.data)
  | some cc => specialClassFromFrame cc f

/-- `_GearCommand.from_frame` -/
def gearFromFrame (T : Tables) (f : Frame) (dt : Nat) : Cmd :=
  (T.gearCommands.findSome? fun e =>
    match e with
    | .unknown => none
    | .standard => stdFromFrame T f dt
    | .dapc => dapcFromFrame T f
    | .special => specialFromFrame T f
    | .custom _ => none).getD (.unknownGear f.data)

/-- `_StandardDeviceCommand.from_frame` -/
def stdDeviceFromFrame (T : Tables) (f : Frame) : Option Cmd :=
  if slice f 16 8 != 0x1FE then none else
  match Addr.fromFrame T.addrOrder f with
  | none => none
  | some addr =>
    match lookup T.devOpcodes (slice f 7 0) with
    | none => some (.unknownDevice f.data)
    | some cc => some (.devStd cc addr)

/-- `_StandardInstanceCommand.from_frame` -/
def stdInstanceFromFrame (T : Tables) (f : Frame) : Option Cmd :=
  if !bit f 16 then none else
  match Addr.fromFrame T.addrOrder f, Inst.fromFrame f with
  | some addr, some inst =>
    match lookup T.instOpcodes (slice f 7 0) with
    | none => some (.unknownDevice f.data)
    | some cc => some (.devInst cc addr inst)
  | _, _ => none

/-- `from_frame` of the special device command classes -/
def devSpecialFromFrame (c : DevSpecialClass) (f : Frame) : Option Cmd :=
  match c.kind with
  | .zero =>
      if slice f 23 16 == c.addr && slice f 15 8 == c.inst && slice f 7 0 == 0x00
      then some (.devSpecial c c.inst 0) else none
  | .one =>
      if slice f 23 16 == c.addr && slice f 15 8 == c.inst
      then some (.devSpecial c c.inst (slice f 7 0)) else none
  | .two =>
      if slice f 23 16 == c.addr then some (.devSpecial c (slice f 15 8) (slice f 7 0)) else none
  | .abstractBase => none
  | .custom => none

/-- `_DeviceCommand.from_frame` -/
def deviceFromFrame (T : Tables) (f : Frame) : Option Cmd :=
  if !bit f 16 then none else
  some ((T.devCommands.findSome? fun e =>
    match e with
    | .unknown => none
    | .stdDevice => stdDeviceFromFrame T f
    | .stdInstance => stdInstanceFromFrame T f
    | .special c => devSpecialFromFrame c f
    | .custom _ => none).getD (.unknownDevice f.data))

/-- the tail of `_Event.from_frame`: pick the event class for a resolved instance type -/
def eventOfType (T : Tables) (itype : Int) (src : EventSrc) (data : Nat) : Cmd :=
  let unknown := Cmd.unknownEvent itype src data
  if itype < 0 then unknown else
  match lookup T.instanceTypes itype.toNat with
  | none => unknown
  | some et =>
    match et.kind with
    | .pushbutton =>
        match lookup T.pushEvents data with
        | some pc => .event pc.name itype.toNat src (.pushbutton pc)
        | none => unknown
    | .occupancy =>
        if data ||| 0b1111 != 0b1111 then unknown
        else .event et.name itype.toNat src
          (.occupancy (data &&& 1 == 1) (data &&& 2 == 2) (data &&& 4 == 4) (data &&& 8 == 8))
    | .light => .event et.name itype.toNat src (.light data)
    | .custom => unknown

/-- `_Event.from_frame` -/
def eventFromFrame (T : Tables) (f : Frame) (m : Option InstMap) : Option Cmd :=
  if bit f 16 then none else
  let data := slice f 9 0
  if !bit f 23 && !bit f 15 then
    some (eventOfType T (slice f 14 10) (.device (slice f 22 17)) data)
  else if !bit f 23 && bit f 15 then
    let inum := slice f 14 10
    let sa := slice f 22 17
    match m.bind (fun m => m.getType sa inum) with
    | none => some (.ambiguous sa inum data)
    | some t => some (eventOfType T t (.deviceInstance sa inum) data)
  else if bit f 23 && !bit f 22 && !bit f 15 then
    some (eventOfType T (slice f 14 10) (.deviceGroup (slice f 21 17)) data)
  else if bit f 23 && !bit f 22 && bit f 15 then
    some (eventOfType T (slice f 21 17) (.inst (slice f 14 10)) data)
  else if bit f 23 && bit f 22 && !bit f 15 then
    some (eventOfType T (slice f 14 10) (.instanceGroup (slice f 21 17)) data)
  else none

/-- `Command.from_frame(f, devicetype, dev_inst_map)` for a `ForwardFrame` -/
def decode (T : Tables) (bits data dt : Nat) (m : Option InstMap) : Cmd :=
  let f : Frame := ⟨bits, data⟩
  match lookup T.framesizes bits with
  | none => .generic bits data
  | some subs =>
    (subs.findSome? fun e =>
      match e with
      | .gear => some (gearFromFrame T f dt)
      | .device => deviceFromFrame T f
      | .event => eventFromFrame T f m
      | .custom _ => none).getD (.generic bits data)

/-! ## construction (the constructors' frame assembly and argument checks) -/

def natVal (n : Nat) : PyVal := .int n

/-- `ForwardFrame(bits, data)` -/
def newFrame (bits data : Nat) : PyRes Frame := Frame.new (natVal bits) (natVal data)

def setSlice (f : Frame) (hi lo : Nat) (v : Int) : PyRes Frame :=
  f.setItem (.slice (natVal hi) (natVal lo) .none) (.int v)

def setBit (f : Frame) (k : Nat) (v : Bool) : PyRes Frame :=
  f.setItem (.idx (natVal k)) (.bool v)

def rangeCheck (v : Int) (limit : Nat) : PyRes Unit :=
  if v < 0 || v > limit then .error .ValueError else .ok ()

/-- the event constructors' source-identification writes (`_Event.__init__`) -/
def eventSrcToFrame (f : Frame) (itype : Int) : EventSrc → PyRes Frame
  | .device sa => do
      let f ← setSlice f 14 10 itype
      let f ← setBit f 23 false
      let f ← setBit f 15 false
      let a ← Addr.mkDeviceShort (natVal sa)
      a.addToFrame f
  | .deviceInstance sa inum => do
      let f ← setSlice f 14 10 inum
      let f ← setBit f 23 false
      let f ← setBit f 15 true
      let a ← Addr.mkDeviceShort (natVal sa)
      a.addToFrame f
  | .deviceGroup g => do
      let f ← setSlice f 14 10 itype
      let f ← setSlice f 21 17 g
      let f ← setBit f 23 true
      let f ← setBit f 22 false
      setBit f 15 false
  | .instanceGroup g => do
      let f ← setSlice f 14 10 itype
      let f ← setSlice f 21 17 g
      let f ← setBit f 23 true
      let f ← setBit f 22 true
      setBit f 15 false
  | .inst inum => do
      let f ← setSlice f 21 17 itype
      let f ← setSlice f 14 10 inum
      let f ← setBit f 23 true
      let f ← setBit f 22 false
      setBit f 15 true

/-- the frame an object of this class with these fields carries — the
constructor's assembly, `.error` where the constructor raises -/
def encode : Cmd → PyRes Frame
  | .generic bits data => .ok ⟨bits, data⟩
  | .unknownGear data => .ok ⟨16, data⟩
  | .dapc a power => do
      rangeCheck power 255
      let f ← newFrame 16 power
      a.addToFrame f
  | .standard c a param => do
      if c.hasparam then rangeCheck param 15
      let f ← newFrame 16 (0x100 ||| c.cmdval ||| (if c.hasparam then param else 0))
      a.addToFrame f
  | .special c param => do
      if c.hasparam then rangeCheck param 255
      Frame.new (natVal 16) (.ints [c.cmdval, if c.hasparam then param else 0])
  | .shortSpecial c addr => do
      let data ← match addr with
        | none => pure 0xff
        | some a => do rangeCheck a 63; pure ((a <<< 1) ||| 1)
      Frame.new (natVal 16) (.ints [c.cmdval, data])
  | .initialise c broadcast addr => do
      if broadcast && addr.isSome then .error .ValueError
      match addr with
      | some a => rangeCheck a 63
      | none => pure ()
      let b : Nat := if broadcast then 0 else
        match addr with
        | none => 0xff
        | some a => (a <<< 1) ||| 1
      Frame.new (natVal 16) (.ints [c.cmdval, b])
  | .unknownDevice data => .ok ⟨24, data⟩
  | .devStd c a => do
      let f ← newFrame 24 (0x1FE00 ||| c.opcode)
      a.addToFrame f
  | .devInst c a i => do
      let f ← newFrame 24 (0x10000 ||| c.opcode)
      let f ← a.addToFrame f
      i.addToFrame f
  | .devSpecial c p1 p2 => do
      match c.kind with
      | .one => rangeCheck p2 255
      | .two => do rangeCheck p1 255; rangeCheck p2 255
      | _ => pure ()
      Frame.new (natVal 24) (.ints [c.addr, p1, p2])
  | .event _ itype src body => do
      let info : Nat := match body with
        | .pushbutton pc => pc.info
        | _ => 0
      let f ← newFrame 24 info
      let f ← eventSrcToFrame f itype src
      match body with
      | .pushbutton _ => pure f
      | .occupancy mv oc rp sm => do
          let f ← setBit f 0 mv
          let f ← setBit f 1 oc
          let f ← setBit f 2 rp
          f.setItem (.idx (natVal 3)) (.int (if sm then 1 else 0))
      | .light v => setSlice f 9 0 v
      | .unknown d => setSlice f 9 0 d
  | .unknownEvent itype src data => do
      let f ← newFrame 24 0
      let f ← eventSrcToFrame f itype src
      setSlice f 9 0 data
  | .ambiguous sa inum data => do
      let f ← newFrame 24 0
      let f ← eventSrcToFrame f 0 (.deviceInstance sa inum)
      setSlice f 9 0 data

/-! ## rendering (`__str__` / `__repr__`) -/

def baseName (q : String) : String := (q.splitOn ".").getLast!

def hex2 (n : Nat) : String :=
  let h (k : Nat) : Char := if k < 10 then Char.ofNat (48 + k) else Char.ofNat (87 + k)
  String.ofList [h (n / 16 % 16), h (n % 16)]

def pyBool (b : Bool) : String := if b then "True" else "False"

def renderSrc : EventSrc → String
  | .device sa => s!"short_address={sa}, "
  | .deviceInstance sa inum => s!"short_address={sa}, instance_number={inum}, "
  | .deviceGroup g => s!"device_group={g}, "
  | .inst inum => s!"instance_number={inum}, "
  | .instanceGroup g => s!"instance_group={g}, "

/-- `Command.__str__` for classes that do not override it -/
def renderGeneric (cls : String) (bits data : Nat) : String :=
  match (⟨bits, data⟩ : Frame).pack with
  | .ok bs => s!"(<class '{cls}'>){":".intercalate (bs.map hex2)}"
  | .error _ => "?"

def render : Cmd → String
  | .generic bits data => renderGeneric "dali.command.Command" bits data
  | .unknownGear data => renderGeneric "dali.gear.general.UnknownGearCommand" 16 data
  | .dapc a p =>
      let ps := if p == 0 then "OFF" else if p == 255 then "MASK" else toString p
      s!"ArcPower({a.render},{ps})"
  | .standard c a p =>
      if c.hasparam then s!"{baseName c.name}({a.render},{p})" else s!"{baseName c.name}({a.render})"
  | .special c p => if c.hasparam then s!"{baseName c.name}({p})" else s!"{baseName c.name}()"
  | .shortSpecial c addr =>
      match addr with
      | none => s!"{baseName c.name}(MASK)"
      | some a => s!"{baseName c.name}({a})"
  | .initialise _ broadcast addr =>
      if broadcast then "Initialise(broadcast=True)" else
      match addr with
      | none => "Initialise(address=None)"
      | some a => s!"Initialise(address={a})"
  | .unknownDevice data => renderGeneric "dali.device.general.UnknownDeviceCommand" 24 data
  | .devStd c a => s!"{baseName c.name}({a.render})"
  | .devInst c a i => s!"{baseName c.name}({a.render}, {i.render})"
  | .devSpecial c p1 p2 =>
      match c.kind with
      | .one => s!"{baseName c.name}({hex2 p2})"
      | .two => s!"{baseName c.name}({hex2 p1}, {hex2 p2})"
      | _ => s!"{baseName c.name}()"
  | .event cls _ src body =>
      let d := match body with
        | .pushbutton _ => ""
        | .occupancy mv oc rp sm =>
            s!"data=EventData(movement={pyBool mv}, occupied={pyBool oc}, repeat={pyBool rp}, sensor_type='{if sm then "movement" else "presence"}'), "
        | .light v => s!"data={v}, "
        | .unknown d => s!"data={d}, "
      let body := renderSrc src ++ d
      s!"{baseName cls}({(body.dropEnd 2).copy})"
  | .unknownEvent _ src data =>
      let body := renderSrc src ++ s!"data={data}, "
      s!"UnknownEvent({(body.dropEnd 2).copy})"
  | .ambiguous sa inum data =>
      s!"AmbiguousInstanceType(short_address={sa}, instance_number={inum}, data={data})"

/-- the class name as the harness reports it (`module.Class` without `dali.`) -/
def className : Cmd → String
  | .generic .. => "command.Command"
  | .unknownGear .. => "gear.general.UnknownGearCommand"
  | .dapc .. => "gear.general.DAPC"
  | .standard c .. => c.name
  | .special c .. => c.name
  | .shortSpecial c .. => c.name
  | .initialise c .. => c.name
  | .unknownDevice .. => "device.general.UnknownDeviceCommand"
  | .devStd c .. => c.name
  | .devInst c .. => c.name
  | .devSpecial c .. => c.name
  | .event cls .. => cls
  | .unknownEvent .. => "device.general.UnknownEvent"
  | .ambiguous .. => "device.general.AmbiguousInstanceType"

end DaliVerif.Cmd

namespace DaliVerif.Cmd

/-- `DeviceInstanceTypeMapper.add_type` after its argument conversions
(`DeviceShort → .address`, `InstanceNumber → .value`, module → `int(module.instance_type)`):
a later entry for the same key replaces the earlier one -/
def InstMap.addType (m : InstMap) (sa inum : Nat) (t : Int) : InstMap := ((sa, inum), t) :: m

def isAmbiguous : Cmd → Bool
  | .ambiguous .. => true
  | _ => false

/-- `AmbiguousInstanceType.retry_decode(dev_inst_map)`: decode the object's own
frame again with the map; `None` if it is still ambiguous -/
def retryDecode (T : Tables) (c : Cmd) (m : InstMap) : Option Cmd :=
  match encode c with
  | .ok f =>
      let r := decode T f.bits f.data 0 (some m)
      if isAmbiguous r then none else some r
  | .error _ => none

end DaliVerif.Cmd
