import DaliVerif.Model.ResponseTypes
/-!
# Model of the response classes (`dali/command.py` + the subclasses in
`dali/gear/*.py`, `dali/device/general.py`)

One function per accessor, selected by *which Python function implements it*
for the class (`RespClass.value`, `.str`, …), reading the class data the
Python reads.  Same order of checks, same exception class.  An implementor
the model does not know (`custom`) has no semantics: the accessor answers
`none` (the driver turns that into `unknown-impl`, and `Props.C06.TableOK`
fails).

The code modelled is the tree *after* the two `fix:` commits of branch
`respmem` (`Response.__str__` catches both exception classes;
`QueryDeviceTypeResponse.__str__` falls back to it;
`QueryAssignedColourResponse.value` checks the framing-error flag first).
-/
namespace DaliVerif.Resp

/-! ## constructor -/

/-- what can be handed to `Response.__init__` -/
inductive CtorArg where
  | none
  | backward (err : Bool) (b : Fin 256)
  /-- a `Frame` / `ForwardFrame` that is not a `BackwardFrame` (any width) -/
  | otherFrame
  /-- any other Python object (int, bool, str, bytes, list, float, …) -/
  | py (v : PyVal)
  deriving Repr

/-- `Response.__init__`: `None` or an instance of `BackwardFrame`, else `TypeError` -/
def construct : CtorArg → PyRes Outcome
  | .none => .ok .none
  | .backward false b => .ok (.ok b)
  | .backward true b => .ok (.err b)
  | .otherFrame => .error .TypeError
  | .py .none => .ok .none
  | .py _ => .error .TypeError

/-- `raw_value` : the stored object itself -/
def rawValue : Outcome → Val
  | .none => .none
  | .ok b => .frame false b.val
  | .err b => .frame true b.val

/-! ## `value` -/

/-- `Response.value` -/
def baseValue (expected errorAcceptable : Bool) : Outcome → PyRes Val
  | .none => if expected then .error .MissingResponse else .ok .none
  | .err b => if !errorAcceptable then .error .ResponseError else .ok (.frame true b.val)
  | .ok b => .ok (.frame false b.val)

/-- `NumericResponse.value` -/
def numericValue : Outcome → Val
  | .none => .str "(missing)"
  | .err _ => .str "(framing error)"
  | .ok b => .int b.val

/-- `NumericResponseMask.value` -/
def numericMaskValue (o : Outcome) : Val :=
  match numericValue o with
  | .int 255 => .str "MASK"
  | v => v

/-- `YesNoResponse.value` -/
def yesNoValue : Outcome → Val
  | .none => .bool false
  | _ => .bool true

def memberValues (c : RespClass) : List Nat := c.members.map (·.2)

/-- `EnumResponse.value`: a frame is truthy (`len` = 8) -/
def enumValue (c : RespClass) (o : Outcome) : PyRes Val :=
  match baseValue c.expected c.errorAcceptable o with
  | .error e => .error e
  | .ok (.frame _ b) => if b ∈ memberValues c then .ok (.enum b) else .error .ValueError
  | .ok v => .ok v

/-- `QueryAssignedColourResponse.value` (after the fix) -/
def assignedColourValue (c : RespClass) : Outcome → PyRes Val
  | .none => .ok .none
  | .err b => enumValue c (.err b)
  | .ok b =>
    if 6 < b.val ∧ b.val < 255 then .ok (.str "(error)")
    else if b.val = 255 then .ok (.str "MASK")
    else enumValue c (.ok b)

def respValue (c : RespClass) (o : Outcome) : Option (PyRes Val) :=
  match c.value with
  | .base => some (baseValue c.expected c.errorAcceptable o)
  | .numeric => some (.ok (numericValue o))
  | .numericMask => some (.ok (numericMaskValue o))
  | .yesNo => some (.ok (yesNoValue o))
  | .enum => some (enumValue c o)
  | .assignedColour => some (assignedColourValue c o)
  | .custom _ => none

/-! ## bitmap accessors -/

/-- the loop of `BitmapResponse.status`: names of the set bits, falsy names skipped -/
def statusLoop : List String → Nat → List String
  | [], _ => []
  | n :: rest, v =>
    if v % 2 = 1 ∧ n ≠ "" then n :: statusLoop rest (v / 2) else statusLoop rest (v / 2)

def framingErrorText : String := "response received with framing error"

/-- `BitmapResponse.status` -/
def bitmapStatus (c : RespClass) : Outcome → PyRes Val
  | .none => .error .MissingResponse
  | .err _ => .ok (.strs [framingErrorText])
  | .ok b => .ok (.strs (statusLoop c.bits b.val))

def respStatus (c : RespClass) (o : Outcome) : Option (PyRes Val) :=
  match c.status with
  | .bitmap => some (bitmapStatus c o)
  | .absent => some (.error .AttributeError)
  | .custom _ => none

def lookupProp (name : String) : List (String × Nat) → Option Nat
  | [] => none
  | (k, v) :: rest => if k = name then some v else lookupProp name rest

/-- `BitmapResponse.__getattr__` (only reached for names ordinary lookup does
not find) -/
def bitAt (i : Nat) : Outcome → PyRes Val
  | .none => .ok .none
  | .err _ => .ok .none
  | .ok b => if i < 8 then .ok (.bool (b.val.testBit i)) else .error .IndexError

def bitmapGetattr (c : RespClass) (name : String) (o : Outcome) : PyRes Val :=
  match lookupProp name c.bitProps with
  | some i => bitAt i o
  | none => .error .AttributeError

def respGetattr (c : RespClass) (name : String) (o : Outcome) : Option (PyRes Val) :=
  match c.getattr with
  | .bitmap => some (bitmapGetattr c name o)
  | .absent => some (.error .AttributeError)
  | .custom _ => none

def Val.truthy : Val → Bool
  | .none => false
  | .frame _ _ => true
  | .int n => n != 0
  | .bool b => b
  | .str s => s != ""
  | .enum n => n != 0
  | .strs l => !l.isEmpty

/-- Python `a or b` on already evaluated operands is not what the code does:
`or` is lazy, so the right operand is a thunk here. -/
def pyOr (a : PyRes Val) (b : Unit → PyRes Val) : PyRes Val :=
  match a with
  | .error e => .error e
  | .ok v => if v.truthy then .ok v else b ()

/-- `.error` -/
def respError (c : RespClass) (o : Outcome) : Option (PyRes Val) :=
  match c.error with
  | .bitmap =>
    some (match o with
      | .none => .ok (.bool false)
      | .ok _ => .ok (.bool false)
      | .err _ => .ok (.bool true))
  | .queryStatus =>
    match c.getattr with
    | .custom _ => none
    | _ =>
      let g := fun n => (respGetattr c n o).getD (.error .AttributeError)
      some (pyOr (g "ballast_status") fun _ => pyOr (g "lamp_failure") fun _ => g "missing_short_address")
  | .absent => some (.error .AttributeError)
  | .custom _ => none

/-! ## extra properties -/

/-- an operand of `<<` / `+`: `None` is a `TypeError`, a bool counts as 0/1 -/
def asNum : Val → PyRes Nat
  | .int n => .ok n
  | .bool b => .ok (if b then 1 else 0)
  | .enum n => .ok n
  | _ => .error .TypeError

/-- `count = self.<n2> << 2; count += self.<n1> << 1; count += self.<n0>` -/
def threeBits (g : String → PyRes Val) (n2 n1 n0 : String) : PyRes Nat := do
  let a ← g n2
  let a ← asNum a
  let b ← g n1
  let b ← asNum b
  let d ← g n0
  let d ← asNum d
  pure (a * 4 + b * 2 + d)

def twoBits (g : String → PyRes Val) (n1 n0 : String) : PyRes Nat := do
  let b ← g n1
  let b ← asNum b
  let d ← g n0
  let d ← asNum d
  pure (b * 2 + d)

/-- the loop of `QueryEmergencyModeResponse.mode` (no test of the name) -/
def modeLoop : List String → Nat → List String
  | [], _ => []
  | n :: rest, v => if v % 2 = 1 then n :: modeLoop rest (v / 2) else modeLoop rest (v / 2)

def byteOf : Outcome → Option Nat
  | .none => Option.none
  | .ok b => some b.val
  | .err b => some b.val

def lookupExtra (name : String) : List (String × ExtraImpl) → Option ExtraImpl
  | [] => none
  | (k, v) :: rest => if k = name then some v else lookupExtra name rest

def extraValue (c : RespClass) (impl : ExtraImpl) (o : Outcome) : Option (PyRes Val) :=
  let g := fun n => (respGetattr c n o).getD (.error .AttributeError)
  match impl with
  | .custom _ => none
  | .fadeTime => some (.ok (match byteOf o with | some b => .int (b / 16) | none => .none))
  | .fadeRate => some (.ok (match byteOf o with | some b => .int (b % 16) | none => .none))
  | .emergencyMode =>
    some (match byteOf o with
      | none => .error .TypeError
      | some b => .ok (.str (",".intercalate (modeLoop c.bits (b % 64)))))
  | .primaryN =>
    match c.getattr with
    | .custom _ => none
    | _ => some ((threeBits g "primary_N_bit_2" "primary_N_bit_1" "primary_N_bit_0").map .int)
  | .rgbwafChannels =>
    match c.getattr with
    | .custom _ => none
    | _ => some ((threeBits g "RGBWAF_channels_bit_2" "RGBWAF_channels_bit_1"
                    "RGBWAF_channels_bit_0").map .int)
  | .controlType =>
    match c.getattr with
    | .custom _ => none
    | _ => some ((twoBits g "control_type_bit_1" "control_type_bit_0").map fun n =>
        .str (if n = 0 then "channel control" else if n = 1 then "colour control"
              else if n = 2 then "normalised colour control" else "(error)"))

/-- attribute access `response.<name>` for a name that is not one of the
standard accessors: an extra property if the class has one, else
`__getattr__` -/
def respAttr (c : RespClass) (name : String) (o : Outcome) : Option (PyRes Val) :=
  match lookupExtra name c.extras with
  | some impl => extraValue c impl o
  | none => respGetattr c name o

/-! ## `__str__` -/

def frameText (e : Bool) (b : Nat) : String :=
  (if e then "BackwardFrameError(" else "BackwardFrame(") ++ toString b ++ ")"

/-- `"{}".format(v)` (Python ≥ 3.11: an `IntEnum` member formats as its number) -/
def Val.format : Val → String
  | .none => "None"
  | .frame e b => frameText e b
  | .int n => toString n
  | .bool b => if b then "True" else "False"
  | .str s => s
  | .enum n => toString n
  | .strs l => "[" ++ ", ".intercalate (l.map fun s => "'" ++ s ++ "'") ++ "]"

/-- `Response.__str__` (after the fix): both `MissingResponse` and
`ResponseError` are rendered as their (empty) message -/
def baseStr (v : PyRes Val) : PyRes Text :=
  match v with
  | .ok v => .ok (.s v.format)
  | .error .MissingResponse => .ok (.s "")
  | .error .ResponseError => .ok (.s "")
  | .error e => .error e

/-- `isinstance(v, int)` -/
def Val.isInt : Val → Option Nat
  | .int n => some n
  | .bool b => some (if b then 1 else 0)
  | .enum n => some n
  | _ => Option.none

/-- `return self.value` from `__str__`: anything but a `str` is a `TypeError` -/
def returnAsStr : Val → PyRes Text
  | .str s => .ok (.s s)
  | _ => .error .TypeError

def lookupType (b : Nat) : List (Nat × String) → Option String
  | [] => none
  | (k, v) :: rest => if k = b then some v else lookupType b rest

def respStr (c : RespClass) (o : Outcome) : Option (PyRes Text) :=
  match c.str with
  | .custom _ => none
  | .base => (respValue c o).map baseStr
  | .bitmap =>
    match c.status with
    | .bitmap =>
      some (match bitmapStatus c o with
        | .ok (.strs l) => .ok (.s (",".intercalate l))
        | .ok _ => .error .TypeError
        -- `except Exception as e: "{}".format(e)`: the only exception
        -- `BitmapResponse.status` raises is `MissingResponse()`, no message
        | .error _ => .ok (.s ""))
    -- any other `status` under `BitmapResponse.__str__` is not modelled
    | _ => none
  | .deviceType =>
    match o with
    | .ok b =>
      match lookupType b.val c.types with
      | some t => some (.ok (.s t))
      | none => (respValue c o).map baseStr
    | _ => (respValue c o).map baseStr
  | .fadeTimeRate =>
    match respAttr c "fade_time" o, respAttr c "fade_rate" o with
    | some (.ok t), some (.ok r) =>
      some (.ok (.s ("Fade time: " ++ t.format ++ "; Fade rate: " ++ r.format)))
    | some (.error e), _ => some (.error e)
    | _, some (.error e) => some (.error e)
    | _, _ => none
  | .fastFade =>
    (respValue c o).map fun r =>
      match r with
      | .error e => .error e
      | .ok v =>
        match v.isInt with
        | some n =>
          if n = 0 then .ok (.s "shortest")
          else if n > 27 then .ok (.s ("out of range (" ++ toString n ++ ")"))
          else .ok (.s (toString (n * 25) ++ " ms"))
        | none => returnAsStr v
  | .outputLevel =>
    (respValue c o).map fun r =>
      match r with
      | .error e => .error e
      | .ok v =>
        match v.isInt with
        | some n =>
          if n = 254 then .ok (.s "10.16V or more")
          else if n = 255 then .ok (.s "unknown")
          else .ok (.volts n)
        | none => returnAsStr v

end DaliVerif.Resp
