import DaliVerif.Spec.GearBus
import DaliVerif.Gen.GearSeqEnums
/-!
# The command classes the gear sequences use, as the working tree declares them (shared by C07 / C08 / C14)

`Gen.GearSeqEnums.cmdSamples` is regenerated from the library on every run (class name, frame of a canonical
instance, device type, `sendtwice` flag).  The model's commands carry the same names, frames and device types,
and the standard's send-twice requirement (`Cmd.twiceRequired`, IEC 62386-102 9.3 / part 209) is what the
classes are flagged with - so a driver that transmits twice exactly what is flagged makes every unit hear every
command of these sequences, and the bus "as driven" (`Bus.execFlagged`) is the bus of the proofs (`Bus.exec`).
-/
namespace DaliVerif.Props.GearCmds
open DaliVerif DaliVerif.GearSeq

def sampleCmds : List Cmd :=
  let s0 := Addr.short 0
  [.dtr0 0, .dtr1 0, .dtr2 0, .enableDT 0, .terminate, .initialise 0, .randomise, .compare, .withdraw,
   .searchH 0, .searchM 0, .searchL 0, .programShort 0, .verifyShort 0, .setShortAddress s0,
   .queryGearPresent s0, .queryDeviceType s0, .queryNextDeviceType s0, .queryGroups07 s0, .queryGroups815 s0,
   .addToGroup s0 0, .removeFromGroup s0 0, .queryActualLevel s0, .queryContentDTR0 s0,
   .setTempTc s0, .activate s0, .storeTcLimit s0, .queryColourValue s0]

/-- the frames, class names and device types the model gives its commands are those the
working tree's command classes carry (regenerated on every run) -/
theorem cmd_frames_gen :
    sampleCmds.map (fun c => (c.cls, c.frame, c.devicetype)) =
      Gen.GearSeqEnums.cmdSamples.map (fun r => (r.1, r.2.1, r.2.2.1)) := by decide +kernel

/-- the `sendtwice` flag of every command class the gear sequences use is what the standard requires
(`Cmd.twiceRequired`: INITIALISE, RANDOMISE, the configuration instructions, STORE Tc LIMIT are acted on only
when received twice) - regenerated on every run … -/
theorem cmd_sendtwice_gen :
    sampleCmds.map (fun c => (c.cls, c.twiceRequired)) =
      Gen.GearSeqEnums.cmdSamples.map (fun r => (r.1, r.2.2.2.1)) := by decide +kernel

/-- … so a driver that transmits twice exactly the commands flagged `sendtwice` makes every unit hear every
command of these sequences: the bus "as driven" is the bus of the proofs -/
theorem execFlagged_eq_exec (b : Bus) (c : Cmd) : Bus.execFlagged b c c.twiceRequired = Bus.exec b c := by
  unfold Bus.execFlagged; cases c.twiceRequired <;> simp


end DaliVerif.Props.GearCmds
