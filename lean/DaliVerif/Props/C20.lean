import DaliVerif.Proofs.WatchRefine
import DaliVerif.Proofs.Registry
/-!
# C20 — bus watchers report every observed transaction once, paired, in order

Property theorems only.  `BusWatch.run` is the model of the Tridonic
`_bus_watch` loop (`Model/BusWatch.lean`, tied to the code by the
correspondence suite `watch`); `Spec.Transactions` reads a whole history of
gateway packets and time-outs declaratively, with one item of look-ahead.
`serialRun` is the observed-frame path of the two serial receivers, `Reg` the
subscriber registry both drivers deliver through.
-/
namespace DaliVerif.Props.C20
open DaliVerif.BusWatch DaliVerif.Answer DaliVerif.Spec.Transactions
open DaliVerif.Proofs

/-- **The watcher refines the declarative reading of the history**: over any
history of packets and time-outs, started with nothing pending and no device
type, the reports delivered to subscribers — commands, their paired responses,
error flags, order — are exactly those of the history parsed into
transactions. -/
theorem watch_refines (dec : Decode) (h : List Item) :
    (run dec WatchState.init (events h)).2 = reports dec h := by
  unfold reports transactions WatchState.init
  rw [WatchRefine.run_filter_other]
  exact WatchRefine.core dec 0 _ (WatchRefine.noOther_filter h)

/-- Reports over a history cut in two: those of the first part, then those of
the second part from the state the first part left. -/
theorem run_append (dec : Decode) (s : WatchState) (a b : List Item) :
    (run dec s (events (a ++ b))).2 =
      (run dec s (events a)).2 ++ (run dec (run dec s (events a)).1 (events b)).2 := by
  rw [WatchRefine.events_append, WatchRefine.run_append]

/-- Every forward frame of the history belongs to exactly one transaction, in
order; the identical repeat of a send-twice command is the second frame of its
`twiceGood` transaction and of nothing else. -/
theorem each_forward_frame_once_in_order (dec : Decode) (h : List Item) :
    (transactions dec h).flatMap framesOf = fwdFrames h := by
  unfold transactions
  rw [WatchRefine.parse_frames, WatchRefine.fwdFrames_filter_other]

/-- Each command is decoded under the device type left by the command just
before it (`n` after ENABLE DEVICE TYPE `n`, 0 after anything else), starting
from 0: a device type never survives an intervening forward frame. -/
theorem devicetype_only_from_immediate_predecessor (dec : Decode) (h : List Item) :
    DtChain dec 0 (transactions dec h) :=
  WatchRefine.parse_dtChain dec 0 _

/-- A query is reported once, together with what closed it: the backward frame
that followed, a framing error, or "no answer" on the gateway's "no frame"
packet or the time-out; the watcher is then idle again with the device type
the query left. -/
theorem query_paired (dec : Decode) (d : Nat) (f : Fwd) (post : List Item)
    (ht : (decode dec f d).info.twice = false)
    (hr : (decode dec f d).info.resp.isSome = true) :
    (∀ b, (run dec ⟨none, d⟩ (events (.pkt (.fwd f) :: .pkt (.back b) :: post))).2 =
      ⟨decode dec f d, some (.value b), false⟩ ::
        (run dec ⟨none, dtAfter (decode dec f d)⟩ (events post)).2) ∧
    (run dec ⟨none, d⟩ (events (.pkt (.fwd f) :: .pkt .backErr :: post))).2 =
      ⟨decode dec f d, some (.framing 255), false⟩ ::
        (run dec ⟨none, dtAfter (decode dec f d)⟩ (events post)).2 ∧
    (run dec ⟨none, d⟩ (events (.pkt (.fwd f) :: .pkt .noFrame :: post))).2 =
      ⟨decode dec f d, some .silent, false⟩ ::
        (run dec ⟨none, dtAfter (decode dec f d)⟩ (events post)).2 ∧
    (run dec ⟨none, d⟩ (events (.pkt (.fwd f) :: .gap :: post))).2 =
      ⟨decode dec f d, some .silent, false⟩ ::
        (run dec ⟨none, dtAfter (decode dec f d)⟩ (events post)).2 := by
  have ht' : (dec f d).twice = false := ht
  have hr' : (dec f d).resp.isSome = true := hr
  refine ⟨fun b => ?_, ?_, ?_, ?_⟩ <;> simp only [events] <;>
    rw [WatchRefine.run_wait dec d f _ (Or.inr hr')]
  · rw [WatchRefine.run_close _ _ _ _ _ _ (WatchRefine.step_query_back dec _ _ b ht' hr')]
  · rw [WatchRefine.run_close _ _ _ _ _ _ (WatchRefine.step_query_backErr dec _ _ ht' hr')]
  · rw [WatchRefine.run_close _ _ _ _ _ _ (WatchRefine.step_query_noFrame dec _ _ ht' hr')]
  · rw [WatchRefine.run_close _ _ _ _ _ _ (WatchRefine.step_query_timeout dec _ _ ht' hr')]

/-- A query overtaken by another forward frame is reported with "no answer",
and the new frame is then processed afresh (under the device type the query
left). -/
theorem query_unanswered_on_forward (dec : Decode) (d : Nat) (f g : Fwd) (post : List Item)
    (ht : (decode dec f d).info.twice = false)
    (hr : (decode dec f d).info.resp.isSome = true) :
    (run dec ⟨none, d⟩ (events (.pkt (.fwd f) :: .pkt (.fwd g) :: post))).2 =
      ⟨decode dec f d, some .silent, false⟩ ::
        (run dec ⟨none, dtAfter (decode dec f d)⟩ (events (.pkt (.fwd g) :: post))).2 := by
  have ht' : (dec f d).twice = false := ht
  have hr' : (dec f d).resp.isSome = true := hr
  simp only [events]
  rw [WatchRefine.run_wait dec d f _ (Or.inr hr'),
    WatchRefine.run_defer _ _ _ _ _ _ (WatchRefine.step_query_fwd dec _ _ g ht' hr')]

/-- A send-twice command is reported exactly once; its error flag is clear iff
the very next item is the identical forward frame (not a time-out, a different
frame, a backward frame, a framing error or "no frame").  The identical repeat
is consumed; a different forward frame is processed afresh; anything else is
consumed. -/
theorem twice_good_iff_identical_repeat_in_time (dec : Decode) (d : Nat) (f : Fwd) (x : Item)
    (post : List Item) (ht : (dec f d).twice = true) (hx : x ≠ .pkt .other) :
    (run dec ⟨none, d⟩ (events (.pkt (.fwd f) :: x :: post))).2 =
      ⟨decode dec f d, none, !(decide (x = .pkt (.fwd f)))⟩ ::
        (run dec ⟨none, dtAfter (decode dec f d)⟩
          (events (match (generalizing := false) x with
            | .pkt (.fwd g) => if g = f then post else x :: post
            | _ => post))).2 := by
  cases x with
  | gap =>
    simp only [events]
    rw [WatchRefine.run_wait dec d f _ (Or.inl ht),
      WatchRefine.run_close _ _ _ _ _ _ (WatchRefine.step_twice_timeout dec _ _ ht)]
    simp
  | pkt p =>
    by_cases hp : ∃ g, p = .fwd g
    · obtain ⟨g, rfl⟩ := hp
      by_cases hg : g = f
      · subst hg
        simp only [events]
        rw [WatchRefine.run_wait dec d g _ (Or.inl ht),
          WatchRefine.run_close _ _ _ _ _ _ (WatchRefine.step_twice_same dec _ _ g ht rfl)]
        simp
      · have hg' : (decode dec f d).frame ≠ g := fun e => hg e.symm
        simp only [events]
        rw [WatchRefine.run_wait dec d f _ (Or.inl ht),
          WatchRefine.run_defer _ _ _ _ _ _ (WatchRefine.step_twice_diff dec _ _ g ht hg')]
        simp [hg, events]
    · have hp' : ∀ g, p ≠ .fwd g := fun g e => hp ⟨g, e⟩
      have ho : p ≠ .other := fun e => hx (by rw [e])
      simp only [events]
      rw [WatchRefine.run_wait dec d f _ (Or.inl ht),
        WatchRefine.run_close _ _ _ _ _ _ (WatchRefine.step_twice_nonfwd dec _ _ p ht hp' ho)]
      cases p <;> first | exact absurd rfl (hp' _) | simp

/-- **Fan-out**: whatever the interleaving of registrations, removals and
emissions, subscriber `i` receives exactly the items emitted while it was
registered, each once, in order. -/
theorem fanout {α} (evs : List (RegEv α)) (i : Nat) :
    (Reg.init.run evs).received i = expectedFor i false evs := by
  have := Registry.fanout_from evs (Reg.init : Reg α) (by simp [Reg.init]) i
  simpa [Reg.init, Reg.received] using this

/-- the same from any registry whose subscriber list has no duplicates -/
theorem fanout_from {α} (evs : List (RegEv α)) (r : Reg α) (hr : r.subs.Nodup) (i : Nat) :
    (r.run evs).received i = r.received i ++ expectedFor i (decide (i ∈ r.subs)) evs :=
  Registry.fanout_from evs r hr i

/-- Removing subscriber `i` changes nothing of what any other subscriber
receives, before or after. -/
theorem unsubscribe_local {α} (evs1 evs2 : List (RegEv α)) (i j : Nat) (h : j ≠ i) :
    (Reg.init.run (evs1 ++ .unsub i :: evs2)).received j =
      (Reg.init.run (evs1 ++ evs2)).received j := by
  rw [fanout, fanout, Registry.expectedFor_unsub_other _ _ _ _ h]

/-- Nor does registering subscriber `i`. -/
theorem subscribe_local {α} (evs1 evs2 : List (RegEv α)) (i j : Nat) (h : j ≠ i) :
    (Reg.init.run (evs1 ++ .sub i :: evs2)).received j =
      (Reg.init.run (evs1 ++ evs2)).received j := by
  rw [fanout, fanout, Registry.expectedFor_sub_other _ _ _ _ h]

/-- **The handler table with explicit keys is the registry**: if the key of an
object handed to `add_handler` / `del_handler` never equals the key of another
object registered at that moment (`KeysFresh` — what `hash()` gives for live
objects), the table holds exactly the registry's subscribers in the same order
and the same items are delivered to the same subscribers in the same order. -/
theorem keyed_registry_refines {α} (key : Nat → Nat) (evs : List (RegEv α))
    (hf : KeysFresh key [] evs) :
    (KReg.init.run key evs).subs = (Reg.init.run evs).subs ∧
    (KReg.init.run key evs).delivered = (Reg.init.run evs).delivered := by
  have h := Registry.keyed_refines key evs (Reg.init : Reg α) KReg.init rfl rfl
    (by simp [Reg.init]) (by intro a ha; simp [Reg.init] at ha) hf
  refine ⟨?_, h.2.1⟩
  simp [KReg.subs, h.1, Registry.entries, Function.comp_def]

/-- **The keys of the live subscribers are pairwise distinct**, and each
subscriber sits under its own key — so `del_handler(x)` removes `x` and nobody
else, `add_handler(x)` overwrites nobody else. -/
theorem live_keys_distinct {α} (key : Nat → Nat) (evs : List (RegEv α))
    (hf : KeysFresh key [] evs) :
    (KReg.init.run key evs).keys.Nodup ∧ ∀ p ∈ (KReg.init.run key evs).table, p.1 = key p.2 := by
  have h := Registry.keyed_refines key evs (Reg.init : Reg α) KReg.init rfl rfl
    (by simp [Reg.init]) (by intro a ha; simp [Reg.init] at ha) hf
  constructor
  · rw [KReg.keys, h.1]; exact Registry.keys_nodup key _ h.2.2.1 h.2.2.2
  · intro p hp
    rw [h.1] at hp
    simp only [Registry.entries, List.mem_map] at hp
    obtain ⟨i, -, rfl⟩ := hp
    rfl

/-- Fan-out for the keyed table: every queue holds exactly the items distributed
while it was subscribed, each once, in order — for every join / leave order. -/
theorem keyed_fanout {α} (key : Nat → Nat) (evs : List (RegEv α)) (hf : KeysFresh key [] evs)
    (i : Nat) : (KReg.init.run key evs).received i = expectedFor i false evs := by
  rw [← fanout]
  simp [KReg.received, Reg.received, (keyed_registry_refines key evs hf).2]

/-- keys that are distinct for distinct objects (at all times) are fresh -/
theorem keysFresh_of_injective {α} (key : Nat → Nat) (hinj : ∀ i j, key i = key j → i = j)
    (evs : List (RegEv α)) : KeysFresh key [] evs :=
  Registry.keysFresh_of_injective key hinj [] evs

/-- "next key = current size of the table" (the child remembers its key) is NOT
fresh: join 0, join 1, leave 0, join 2 — subscriber 2 is stored under key 1 and
overwrites subscriber 1, which silently stops receiving; subscriber 1 leaving
then removes subscriber 2. -/
example :
    let stepL := fun (r : HTable × List (Nat × Nat)) (e : RegEv Unit) =>
      match e with
      | .sub i => (r.1.set r.1.length i, (i, r.1.length) :: r.2)
      | .unsub i => match r.2.lookup i with
        | some k => (r.1.pop k, r.2)
        | none => r
      | .emit _ => r
    let r := [RegEv.sub 0, .sub 1, .unsub 0, .sub 2].foldl stepL ([], [])
    r.1.map (·.2) = [2] ∧ (stepL r (.unsub 1)).1 = [] ∧
    (Reg.init.run [RegEv.sub 0, .sub 1, .unsub 0, .sub 2 (α := Unit)]).subs = [1, 2] := by decide

/-- A forward frame of ANOTHER LENGTH is never the repeat of a pending
send-twice command, whatever its bits (16-bit `01 20` followed by 24-bit
`00 01 20`): the command is reported as failed, and the other frame is a
transaction of its own. -/
theorem other_length_is_not_a_repeat (dec : Decode) (d : Nat) (f g : Fwd) (post : List Item)
    (ht : (dec f d).twice = true) (hb : g.bits ≠ f.bits) :
    (run dec ⟨none, d⟩ (events (.pkt (.fwd f) :: .pkt (.fwd g) :: post))).2 =
      ⟨decode dec f d, none, true⟩ ::
        (run dec ⟨none, dtAfter (decode dec f d)⟩ (events (.pkt (.fwd g) :: post))).2 := by
  have hg : g ≠ f := fun e => hb (e ▸ rfl)
  have h := twice_good_iff_identical_repeat_in_time dec d f (.pkt (.fwd g)) post ht (by simp)
  simpa [hg] using h

/-- The serial receivers: every observed forward frame becomes one command,
decoded under the device type left by the frame just before it. -/
theorem serial_refines (dec : Decode) (d : Nat) (fs : List Fwd) :
    serialRun dec d fs = serialCmds dec d fs := by
  induction fs generalizing d with
  | nil => rfl
  | cons f fs ih => simp [serialRun, serialCmds, serialStep, ih]

/-- … and the commands distributed are the observed frames, each once, in order. -/
theorem serial_each_frame_once_in_order (dec : Decode) (d : Nat) (fs : List Fwd) :
    (serialRun dec d fs).map (·.frame) = fs := by
  induction fs generalizing d with
  | nil => rfl
  | cons f fs ih => simp [serialRun, serialStep, ih]

/-! ### the statements are about something: concrete histories -/

/-- data 1 = ENABLE DEVICE TYPE 6, data 2 = a query whose meaning depends on
the device type, data 3 = a send-twice command, anything else plain -/
private def dec0 : Decode := fun f dt =>
  if f.data = 1 then ⟨false, none, some 6⟩
  else if f.data = 2 then ⟨false, some (7 + dt), none⟩
  else if f.data = 3 then ⟨true, none, none⟩
  else ⟨false, none, none⟩

/-- EDT 6, query (decoded under 6), its answer, a send-twice command left alone -/
example :
    reports dec0 [.pkt (.fwd ⟨16, 1⟩), .pkt (.fwd ⟨16, 2⟩), .pkt (.back 5), .pkt (.fwd ⟨16, 3⟩), .gap]
      = [⟨⟨⟨16, 1⟩, 0, ⟨false, none, some 6⟩⟩, none, false⟩,
         ⟨⟨⟨16, 2⟩, 6, ⟨false, some 13, none⟩⟩, some (.value 5), false⟩,
         ⟨⟨⟨16, 3⟩, 0, ⟨true, none, none⟩⟩, none, true⟩] := by
  rw [← watch_refines]; decide

/-- a send-twice command repeated in time (an ignored packet in between), then
a query overtaken by a frame: the device type does not reach the second query -/
example :
    reports dec0 [.pkt (.fwd ⟨16, 3⟩), .pkt .other, .pkt (.fwd ⟨16, 3⟩), .pkt (.fwd ⟨16, 1⟩),
        .pkt (.fwd ⟨16, 2⟩), .pkt (.fwd ⟨16, 2⟩), .pkt .noFrame]
      = [⟨⟨⟨16, 3⟩, 0, ⟨true, none, none⟩⟩, none, false⟩,
         ⟨⟨⟨16, 1⟩, 0, ⟨false, none, some 6⟩⟩, none, false⟩,
         ⟨⟨⟨16, 2⟩, 6, ⟨false, some 13, none⟩⟩, some .silent, false⟩,
         ⟨⟨⟨16, 2⟩, 0, ⟨false, some 7, none⟩⟩, some .silent, false⟩] := by
  rw [← watch_refines]; decide

example :
    (Reg.init.run [.sub 1, .emit 'a', .sub 2, .sub 1, .emit 'b', .unsub 1, .emit 'c']).received 1
      = ['a', 'b'] ∧
    (Reg.init.run [.sub 1, .emit 'a', .sub 2, .sub 1, .emit 'b', .unsub 1, .emit 'c']).received 2
      = ['b', 'c'] := by decide

example : serialRun dec0 0 [⟨16, 1⟩, ⟨16, 2⟩, ⟨16, 2⟩] =
    [⟨⟨16, 1⟩, 0, ⟨false, none, some 6⟩⟩, ⟨⟨16, 2⟩, 6, ⟨false, some 13, none⟩⟩,
     ⟨⟨16, 2⟩, 0, ⟨false, some 7, none⟩⟩] := by decide

end DaliVerif.Props.C20
