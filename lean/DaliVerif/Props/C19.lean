import DaliVerif.Proofs.SerialRxChunks
import DaliVerif.Proofs.SerialRxBound
/-!
# C19 — serial receivers deframe any byte stream like the protocol's grammar

Property theorems only.  `SerialRx.Luba` / `SerialRx.Sci` are the models of the
receive state machines of `dali/driver/serial.py` (`Model/SerialRx.lean`, tied to
the code by the correspondence suite); `Spec.Deframe.lubaDeframe/sciDeframe` are
the reference deframers written over the whole stream.  Bytes are `Nat`s below
256; `o` is the decode oracle (every theorem holds for every oracle).
-/
namespace DaliVerif.Props.C19
open DaliVerif SerialRx Spec.Deframe Proofs.SerialRx
open Gen.DriverConsts

/-- the constants of the tree the model runs on are those the reference was written with -/
theorem luba_consts :
    luba_MAX_LEN - 4 = lubaMaxPayload ∧ luba_EVENT_TYPE_MASK = 0xC0 ∧ luba_EVENT_INFO_MASK = 0x3F ∧
    lubaCmd_EVENT_MESSAGE = 0x31 ∧ lubaCmd_ADD_DALI_FRAME_TO_TX_RSP = 0x33 ∧
    lubaCmd_QUERY_DEVICE_INFO_RSP = 0x21 ∧ lubaCmd_READ_WRITE_SETTINGS_RSP = 0x2B ∧
    (∀ c ∈ [0x31, 0x33, 0x21, 0x2B], Luba.knownCmd c = true) := by decide

theorem sci_consts :
    sci_MAX_LEN = 5 ∧ sci_STATUS_CODE_MASK = 0x0F ∧ sci_STATUS_ID_MASK = 0xF0 ∧
    sciCode = [("ERROR", 7), ("SEND_DALI2_24", 8), ("SEND_DALI_16", 3), ("SEND_DALI_17", 6), ("SEND_DALI_8", 2),
               ("SEND_DSI", 5), ("SEND_EDALI", 4), ("STATUS_DALI_NO", 1), ("STATUS_OK", 0)] ∧
    sciErrorType.map (·.2) = [1, 5, 2, 3, 4] := by decide

/-- **LUBA refinement, from any receiver state.**  If the receiver is in a state
`s` in which the bytes `acc` of a frame are in progress (`Rel`), then for every
continuation `bytes` such that `acc ++ bytes` contains no checksum-valid frame
with a payload malformed for its type, `data_received(bytes)` raises nothing and
delivers exactly what the reference deframer extracts from `acc ++ bytes`. -/
theorem luba_refines_from (o : Oracle) (s : Luba.State) (a : AState) (h : Rel s a) (bytes : List Nat)
    (hb : ∀ x ∈ a.acc ++ bytes, x < 256)
    (hwf : LubaWellFormed o ⟨a.rxdt, a.txdt⟩ (a.acc ++ bytes)) :
    (Luba.runChunk o s bytes).err = none ∧
    (Luba.runChunk o s bytes).items.map Out.item = lubaDeframe o ⟨a.rxdt, a.txdt⟩ (a.acc ++ bytes) := by
  obtain ⟨h1, h2, _⟩ := run_sim o bytes s a h
  obtain ⟨d1, d2⟩ := arun_deframe o bytes a h.2.2.1 hb hwf
  exact ⟨by rw [h2, d1], by rw [h1, d2]⟩

/-- **luba_refines** (clause "deliver exactly the sequence of items that an
independent reference deframer extracts"; bad checksum, unknown type and a
length that cannot fit are dropped and reception resumes at the next frame
boundary — that is how `lubaDeframe` is written).  For every byte stream fed to a
fresh receiver. -/
theorem luba_refines (o : Oracle) (bytes : List Nat) (hb : ∀ x ∈ bytes, x < 256)
    (hwf : LubaWellFormed o ⟨0, 0⟩ bytes) :
    (Luba.runChunk o Luba.init bytes).err = none ∧
    (Luba.runChunk o Luba.init bytes).items.map Out.item = lubaDeframe o ⟨0, 0⟩ bytes :=
  luba_refines_from o Luba.init ⟨[], 0, 0⟩ rel_init bytes (by simpa using hb) (by simpa using hwf)

/-- **sci_refines**: the same for the SCI receiver (it has no malformed payloads: no side condition). -/
theorem sci_refines (o : Oracle) (bytes : List Nat) (hb : ∀ x ∈ bytes, x < 256) :
    (Sci.runChunk o Sci.init bytes).err = none ∧
    (Sci.runChunk o Sci.init bytes).items = sciDeframe o 0 bytes := by
  have h := sci_refines_aux o bytes.length bytes Sci.init (Nat.le_refl _) (by simp [sciIdle, Sci.init, sci_MAX_LEN]) hb
  exact ⟨h.2, h.1⟩

/-- **chunking_independent** (clause "the result does not depend on how the stream was
chunked"): receiving `a` and then `b` is receiving `a ++ b`, as long as `a` raised nothing. -/
theorem luba_chunking_independent (o : Oracle) (s : Luba.State) (a b : List Nat)
    (h : (Luba.runChunk o s a).err = none) :
    Luba.runChunk o s (a ++ b) =
      ⟨(Luba.runChunk o (Luba.runChunk o s a).state b).state,
       (Luba.runChunk o s a).items ++ (Luba.runChunk o (Luba.runChunk o s a).state b).items,
       (Luba.runChunk o (Luba.runChunk o s a).state b).err⟩ :=
  Luba.runChunk_append o a b s h

theorem sci_chunking_independent (o : Oracle) (s : Sci.State) (a b : List Nat)
    (h : (Sci.runChunk o s a).err = none) :
    Sci.runChunk o s (a ++ b) =
      ⟨(Sci.runChunk o (Sci.runChunk o s a).state b).state,
       (Sci.runChunk o s a).items ++ (Sci.runChunk o (Sci.runChunk o s a).state b).items,
       (Sci.runChunk o (Sci.runChunk o s a).state b).err⟩ :=
  Sci.runChunk_append o a b s h

/-- for **every way of splitting the stream into reads**: the sequence of `data_received`
calls delivers the reference deframer's items of the concatenation and raises nothing -/
theorem luba_chunked_refines (o : Oracle) (chunks : List (List Nat)) (hb : ∀ x ∈ chunks.flatten, x < 256)
    (hwf : LubaWellFormed o ⟨0, 0⟩ chunks.flatten) :
    (Luba.runChunks o Luba.init chunks).2.2 = [] ∧
    (Luba.runChunks o Luba.init chunks).2.1.map Out.item = lubaDeframe o ⟨0, 0⟩ chunks.flatten := by
  obtain ⟨h1, h2⟩ := luba_refines o chunks.flatten hb hwf
  rw [Luba.runChunks_flatten o chunks Luba.init h1]
  exact ⟨rfl, h2⟩

theorem sci_chunked_refines (o : Oracle) (chunks : List (List Nat)) (hb : ∀ x ∈ chunks.flatten, x < 256) :
    (Sci.runChunks o Sci.init chunks).2.2 = [] ∧
    (Sci.runChunks o Sci.init chunks).2.1 = sciDeframe o 0 chunks.flatten := by
  obtain ⟨h1, h2⟩ := sci_refines o chunks.flatten hb
  rw [Sci.runChunks_flatten o chunks Sci.init h1]
  exact ⟨rfl, h2⟩

/-- **no_internal_error** (clause "no input raises an internal error"): for *every* sequence of
reads — malformed payloads included, and continuing after a handler has raised — the only
exceptions that ever escape are those a handler raises deliberately for a checksum-valid
frame; the state machine's own bookkeeping (the fixed 24-entry buffer) never raises.
False of the code before the F11 repair (length bytes 21..23, see docs/C19.md). -/
theorem luba_no_internal_error (o : Oracle) (chunks : List (List Nat)) :
    ∀ e ∈ (Luba.runChunks o Luba.init chunks).2.2, ∃ x, e = RxErr.handler x :=
  luba_chunks_no_internal o chunks Luba.init ⟨[], 0, 0⟩ rel_init

/-- one byte never makes the state machine raise, in any state reachable with a frame in progress -/
theorem luba_step_no_internal (o : Oracle) (s : Luba.State) (a : AState) (b : Nat) (h : Rel s a) (e : PyErr) :
    (Luba.step o s b).err ≠ some (.internal e) :=
  step_no_internal o s a b h e

/-- the SCI receiver never raises at all, whatever it is fed -/
theorem sci_never_raises (o : Oracle) (chunks : List (List Nat)) :
    (Sci.runChunks o Sci.init chunks).2.2 = [] :=
  sci_chunks_ok o chunks Sci.init (by simp [Sci.init, sci_MAX_LEN])

/-- **always_resyncs**, LUBA (clause "…or leaves the receiver unable to accept a following
well-formed frame"): whatever was received before, once the receiver is at a frame boundary
(`Rel s ⟨[], …⟩`: no frame in progress) everything that follows is deframed exactly as the
reference deframes it from scratch — in particular a following well-formed frame is delivered.
`luba_refines_from` covers the states with a frame in progress. -/
theorem luba_always_resyncs (o : Oracle) (s : Luba.State) (rx tx : Nat) (h : Rel s ⟨[], rx, tx⟩)
    (bytes : List Nat) (hb : ∀ x ∈ bytes, x < 256) (hwf : LubaWellFormed o ⟨rx, tx⟩ bytes) :
    (Luba.runChunk o s bytes).err = none ∧
    (Luba.runChunk o s bytes).items.map Out.item = lubaDeframe o ⟨rx, tx⟩ bytes :=
  luba_refines_from o s ⟨[], rx, tx⟩ h bytes (by simpa using hb) (by simpa using hwf)

/-- SCI: after any number of complete five-byte frames the receiver is at a frame boundary and
deframes what follows like the reference (`sciIdle` = waiting for a status byte). -/
theorem sci_always_resyncs (o : Oracle) (s : Sci.State) (h : sciIdle s) (bytes : List Nat)
    (hb : ∀ x ∈ bytes, x < 256) :
    (Sci.runChunk o s bytes).err = none ∧ (Sci.runChunk o s bytes).items = sciDeframe o s.rxdt bytes := by
  have := sci_refines_aux o bytes.length bytes s (Nat.le_refl _) h hb
  exact ⟨this.2, this.1⟩

/-- **resync_bound** (the explicit bound): from *every* receiver state with a frame in progress (`Rel s a`; every
state reachable by any sequence of reads is such a state, `luba_resync_bound_any_history`), `MAX_LEN - 1` = 23 bytes
other than 'Y' that raise no handler exception bring the receiver to a frame boundary (no frame in progress).
The bound is tight and "other than 'Y'" cannot be dropped (examples below): an arbitrary byte may be a 'Y' that opens
a new frame which swallows what follows. -/
theorem luba_resync_bound (o : Oracle) (s : Luba.State) (a : AState) (h : Rel s a) (idle : List Nat)
    (hid : ∀ x ∈ idle, x ≠ 0x59) (hlen : luba_MAX_LEN - 1 ≤ idle.length)
    (hne : (Luba.runChunk o s idle).err = none) :
    Rel (Luba.runChunk o s idle).state
      ⟨[], (Luba.runChunk o s idle).state.rxdt, (Luba.runChunk o s idle).state.txdt⟩ :=
  idle_boundary o idle s a h hid hlen hne

/-- … and a well-formed frame that follows (valid checksum, payload not malformed for its type) is delivered:
the items are those of the idle stretch followed by exactly the frame's meaning, and nothing is raised. -/
theorem luba_resync_delivers (o : Oracle) (s : Luba.State) (a : AState) (h : Rel s a) (idle : List Nat)
    (hid : ∀ x ∈ idle, x ≠ 0x59) (hlen : luba_MAX_LEN - 1 ≤ idle.length)
    (hne : (Luba.runChunk o s idle).err = none)
    (c n : Nat) (p : List Nat) (hn : 1 ≤ n ∧ n ≤ lubaMaxPayload) (hp : p.length = n)
    (hb : ∀ x ∈ c :: n :: p, x < 256)
    (hwf : Out.malformed ∉ (lubaMeaning o ⟨(Luba.runChunk o s idle).state.rxdt, (Luba.runChunk o s idle).state.txdt⟩ c p).2) :
    (Luba.runChunk o s (idle ++ 0x59 :: c :: n :: (p ++ [xorSum (c :: n :: p)]))).err = none ∧
    (Luba.runChunk o s (idle ++ 0x59 :: c :: n :: (p ++ [xorSum (c :: n :: p)]))).items.map Out.item =
      (Luba.runChunk o s idle).items.map Out.item ++
      (lubaMeaning o ⟨(Luba.runChunk o s idle).state.rxdt, (Luba.runChunk o s idle).state.txdt⟩ c p).2 := by
  have hrel := idle_boundary o idle s a h hid hlen hne
  have hn20 : n ≤ 20 := hn.2
  have hdf := deframe_frame o ⟨(Luba.runChunk o s idle).state.rxdt, (Luba.runChunk o s idle).state.txdt⟩
    c n (xorSum (c :: n :: p)) p [] hn.1 hn20 hp
  have hnil : ∀ ctx, lubaDeframe o ctx [] = [] := by intro ctx; rw [lubaDeframe.eq_def]
  rw [if_pos rfl, hnil, List.append_nil] at hdf
  have hbytes : ∀ x ∈ 0x59 :: c :: n :: (p ++ [xorSum (c :: n :: p)]), x < 256 := by
    intro x hx
    simp only [List.mem_cons, List.mem_append, List.mem_nil_iff, or_false] at hx
    rcases hx with hx | hx | hx | hx | hx
    · omega
    · exact hb x (by simp [hx])
    · exact hb x (by simp [hx])
    · exact hb x (by simp [hx])
    · rw [hx]; exact xorSum_lt _ hb
  obtain ⟨r1, r2⟩ := luba_refines_from o _ _ hrel _ hbytes (by
    show Out.malformed ∉ lubaDeframe o _ _
    simp only [List.nil_append]; rw [hdf]; exact hwf)
  rw [Luba.runChunk_append o idle _ s hne]
  simp only [List.nil_append] at r2
  exact ⟨r1, by simp only [List.map_append, r2, hdf]⟩

/-- the same after any history of reads from a fresh receiver, exceptions included -/
theorem luba_resync_bound_any_history (o : Oracle) (chunks : List (List Nat)) (idle : List Nat)
    (hid : ∀ x ∈ idle, x ≠ 0x59) (hlen : luba_MAX_LEN - 1 ≤ idle.length)
    (hne : (Luba.runChunk o (Luba.runChunks o Luba.init chunks).1 idle).err = none) :
    Rel (Luba.runChunk o (Luba.runChunks o Luba.init chunks).1 idle).state
      ⟨[], (Luba.runChunk o (Luba.runChunks o Luba.init chunks).1 idle).state.rxdt,
           (Luba.runChunk o (Luba.runChunks o Luba.init chunks).1 idle).state.txdt⟩ := by
  obtain ⟨a, h⟩ := chunks_rel o chunks Luba.init ⟨[], 0, 0⟩ rel_init
  exact idle_boundary o idle _ a h hid hlen hne

/-! ## no memory of delivered items: a frame received again is delivered again

The receivers are functions of the byte stream (`…_chunking_independent`: the items of `a ++ b` are the items of `a`
followed by the items of `b` from the state after `a`) and the state after a complete frame is a frame boundary that
remembers nothing of the frame but the device type (`rxdt`/`txdt`).  Hence a well-formed frame fed twice in a row
from a frame boundary yields its item twice.  (Seeded change C19-D — the SCI receiver suppressing a *repeated* error
report — contradicts `sci_error_report_repeated`.) -/

/-- **sci_repeat_delivered_twice**: a checksum-valid SCI message received twice in a row from a frame boundary delivers
its meaning twice (the second time under the device type the first one left). -/
theorem sci_repeat_delivered_twice (o : Oracle) (s : Sci.State) (h : sciIdle s) (st hi mi lo : Nat)
    (hst : st < 256) (hlo : lo < 256) :
    (Sci.runChunk o s ([st, hi, mi, lo, xorSum [st, hi, mi, lo]] ++ [st, hi, mi, lo, xorSum [st, hi, mi, lo]])).err
      = none ∧
    (Sci.runChunk o s ([st, hi, mi, lo, xorSum [st, hi, mi, lo]] ++ [st, hi, mi, lo, xorSum [st, hi, mi, lo]])).items =
      (sciFrameMeaning o s.rxdt st hi mi lo).2 ++
        (sciFrameMeaning o (sciFrameMeaning o s.rxdt st hi mi lo).1 st hi mi lo).2 := by
  have hidle : ∀ r, sciIdle ⟨.waitStatus, List.replicate 5 0, r⟩ := by intro r; simp [sciIdle]
  simp only [List.cons_append, List.nil_append]
  rw [sci_frame o s h st hi mi lo _ hst hlo, sci_frame o _ (hidle _) st hi mi lo _ hst hlo]
  simp [sciFrameOut, Sci.runChunk]

/-- **sci_error_report_repeated**: `k` identical error reports (status code 7, known error code 1..5) in a row, from
any frame boundary, deliver `k` device replies `(id, 7)` — one per report, however often the fault is reported. -/
theorem sci_error_report_repeated (o : Oracle) (st hi mi lo : Nat) (hst : st < 256) (hlo : 1 ≤ lo ∧ lo ≤ 5)
    (hcode : st % 16 = 7) (k : Nat) : ∀ (s : Sci.State), sciIdle s →
    (Sci.runChunk o s (List.replicate k [st, hi, mi, lo, xorSum [st, hi, mi, lo]]).flatten).err = none ∧
    (Sci.runChunk o s (List.replicate k [st, hi, mi, lo, xorSum [st, hi, mi, lo]]).flatten).items =
      List.replicate k (Item.sciinfo (st / 16) 7) := by
  induction k with
  | zero => intro s _; simp [Sci.runChunk]
  | succ k ih =>
    intro s h
    have hidle : ∀ r, sciIdle ⟨.waitStatus, List.replicate 5 0, r⟩ := by intro r; simp [sciIdle]
    simp only [List.replicate_succ, List.flatten_cons, List.cons_append, List.nil_append]
    rw [sci_frame o s h st hi mi lo _ hst (by omega)]
    obtain ⟨i1, i2⟩ := ih _ (hidle (sciFrameOut o s.rxdt st hi mi lo (xorSum [st, hi, mi, lo])).1)
    simp only [i1, i2, true_and]
    simp [sciFrameOut, sciFrameMeaning, hcode, hlo.1, hlo.2]

/-- **luba_repeat_delivered_twice**: a checksum-valid LUBA frame (payload not malformed for its type) received twice in
a row from a frame boundary delivers its meaning twice (the second time in the context the first one left). -/
theorem luba_repeat_delivered_twice (o : Oracle) (s : Luba.State) (rx tx : Nat) (h : Rel s ⟨[], rx, tx⟩)
    (c n : Nat) (p : List Nat) (hn : 1 ≤ n ∧ n ≤ lubaMaxPayload) (hp : p.length = n)
    (hb : ∀ x ∈ c :: n :: p, x < 256)
    (hwf1 : Out.malformed ∉ (lubaMeaning o ⟨rx, tx⟩ c p).2)
    (hwf2 : Out.malformed ∉ (lubaMeaning o (lubaMeaning o ⟨rx, tx⟩ c p).1 c p).2) :
    (Luba.runChunk o s ((0x59 :: c :: n :: (p ++ [xorSum (c :: n :: p)])) ++
        (0x59 :: c :: n :: (p ++ [xorSum (c :: n :: p)])))).err = none ∧
    (Luba.runChunk o s ((0x59 :: c :: n :: (p ++ [xorSum (c :: n :: p)])) ++
        (0x59 :: c :: n :: (p ++ [xorSum (c :: n :: p)])))).items.map Out.item =
      (lubaMeaning o ⟨rx, tx⟩ c p).2 ++ (lubaMeaning o (lubaMeaning o ⟨rx, tx⟩ c p).1 c p).2 := by
  have hn20 : n ≤ 20 := hn.2
  have hnil : ∀ ctx, lubaDeframe o ctx [] = [] := by intro ctx; rw [lubaDeframe.eq_def]
  have hshape : (0x59 :: c :: n :: (p ++ [xorSum (c :: n :: p)])) ++ (0x59 :: c :: n :: (p ++ [xorSum (c :: n :: p)])) =
      0x59 :: c :: n :: (p ++ xorSum (c :: n :: p) :: (0x59 :: c :: n :: (p ++ xorSum (c :: n :: p) :: []))) := by simp
  have hdf : lubaDeframe o ⟨rx, tx⟩ ((0x59 :: c :: n :: (p ++ [xorSum (c :: n :: p)])) ++
        (0x59 :: c :: n :: (p ++ [xorSum (c :: n :: p)]))) =
      (lubaMeaning o ⟨rx, tx⟩ c p).2 ++ (lubaMeaning o (lubaMeaning o ⟨rx, tx⟩ c p).1 c p).2 := by
    rw [hshape, deframe_frame o _ c n _ p _ hn.1 hn20 hp, if_pos rfl,
      deframe_frame o _ c n _ p [] hn.1 hn20 hp, if_pos rfl, hnil, List.append_nil]
  have hchk : xorSum (c :: n :: p) < 256 := xorSum_lt _ hb
  have hbytes : ∀ x ∈ (0x59 :: c :: n :: (p ++ [xorSum (c :: n :: p)])) ++
      (0x59 :: c :: n :: (p ++ [xorSum (c :: n :: p)])), x < 256 := by
    intro x hx
    simp only [List.mem_cons, List.mem_append, List.mem_nil_iff, or_false] at hx
    rcases hx with (hx | hx | hx | hx | hx) | hx | hx | hx | hx | hx
    all_goals first
      | (rw [hx]; omega)
      | exact hb x (by simp [hx])
  obtain ⟨r1, r2⟩ := luba_always_resyncs o s rx tx h _ hbytes (by
    show Out.malformed ∉ lubaDeframe o _ _
    rw [hdf]; simp only [List.mem_append, not_or]; exact ⟨hwf1, hwf2⟩)
  exact ⟨r1, by rw [r2, hdf]⟩

/-! ## non-vacuity -/

/-- the bus short-circuit report of device 3, three times in a row: three device replies -/
example : (Sci.runChunk ⟨fun _ _ _ => true, fun _ _ _ => true⟩ Sci.init
    ([0x37, 0, 0, 2, 0x35] ++ [0x37, 0, 0, 2, 0x35] ++ [0x37, 0, 0, 2, 0x35])).items =
    [.sciinfo 3 7, .sciinfo 3 7, .sciinfo 3 7] := by decide

/-- a well-formed stream with noise, a bad length, an observed ENABLE DEVICE TYPE and a backward frame -/
example : LubaWellFormed ⟨fun _ _ _ => true, fun _ _ _ => true⟩ ⟨0, 0⟩
    [0x00, 0x59, 0x31, 0x17, 0x59, 0x31, 0x06, 0, 0, 0, 0x90, 0xC1, 0x06, 0x76,
     0x59, 0x31, 0x05, 0, 0, 0, 0x88, 0x55, 0xE9] := by
  simp [LubaWellFormed, lubaDeframe, lubaMaxPayload, xorSum, lubaMeaning, lubaEvent]

/-- a length byte of 21 is refused by the repaired receiver and a following frame is delivered -/
example : (Luba.runChunk ⟨fun _ _ _ => true, fun _ _ _ => true⟩ Luba.init
    ([0x59, 0x31, 21] ++ [0x59, 0x2B, 0x03, 0x01, 0x12, 0x00, 0x3B])).items = [.settings 1 0x12] := by
  decide

/-- the bound 23 is tight: after 'Y' and 22 bytes of value 20 the receiver still waits for the checksum and the
following frame is lost; after 23 it is delivered -/
example : (Luba.runChunk ⟨fun _ _ _ => true, fun _ _ _ => true⟩ Luba.init
    ([0x59] ++ List.replicate 22 20 ++ [0x59, 0x2B, 0x03, 0x01, 0x12, 0x00, 0x3B])).items = [] ∧
    (Luba.runChunk ⟨fun _ _ _ => true, fun _ _ _ => true⟩ Luba.init
    ([0x59] ++ List.replicate 23 20 ++ [0x59, 0x2B, 0x03, 0x01, 0x12, 0x00, 0x3B])).items = [.settings 1 0x12] := by
  decide

/-- "bytes other than 'Y'" cannot be weakened to arbitrary bytes: 23 bytes ending in `'Y' 31 14` swallow the frame -/
example : (Luba.runChunk ⟨fun _ _ _ => true, fun _ _ _ => true⟩ Luba.init
    (List.replicate 20 0 ++ [0x59, 0x31, 0x14] ++ [0x59, 0x2B, 0x03, 0x01, 0x12, 0x00, 0x3B])).items = [] := by
  decide

end DaliVerif.Props.C19
