import DaliVerif.Proofs.GearSeqC14
import DaliVerif.Gen.GearSeqEnums
import DaliVerif.Props.GearCmds
/-!
# C14 — colour (DT8) sequences carry 16-bit values byte-exactly and in order

Property theorems only.  `setTc`, `setTcLimit`, `queryColour` (`Model/GearSeq.lean`) model
`SetDT8ColourValueTc`, `SetDT8TcLimit`, `QueryDT8ColourValue` of `dali/gear/sequences.py`
(tied by lock-step execution); the specification bus executes a device-type-8 command only
directly after ENABLE DEVICE TYPE 8 and only in units that implement type 8 (`Bus.exec`
inserts the prefix, as every driver's `send` does for a command whose class has `devicetype = 8`).
The post-conditions are `Spec/GearPost.lean`.
-/
namespace DaliVerif.Props.C14
open DaliVerif GearSeq

/-- a plain `int` destination is the short address -/
theorem dest_int (d : Dest) (a : Addr) (hd : d.resolve = .ok a) (tc w : PyVal) (q : Option Nat) :
    setTc d tc = setTc (.addr a) tc ∧ setTcLimit d w tc = setTcLimit (.addr a) w tc ∧
    queryColour d q = queryColour (.addr a) q := by
  refine ⟨?_, ?_, ?_⟩ <;>
    simp only [setTc, setTcLimit, queryColour, withDest_resolve d a hd, withDest_resolve (.addr a) a rfl]

/-- **setTc_spec** — for every `tc < 65536`, every destination and every bus: the commands are
exactly DTR0(low byte), DTR1(high byte), SET TEMPORARY COLOUR TEMPERATURE, ACTIVATE, in that order;
afterwards every addressed colour unit has Tc = `tc` (limited to its own [coolest, warmest];
0xFFFF = MASK leaves Tc alone), DTR0/DTR1 hold the two bytes, and every other unit's colour state
is untouched. -/
theorem setTc_spec (b : Bus) (d : Dest) (a : Addr) (hd : d.resolve = .ok a) (tc : Nat) (htc : tc < 65536) :
    setTcPost b a tc (runBus (setTc d (.int tc)) b) = true := by
  rw [(dest_int d a hd (.int tc) .none none).1]; exact setTcPost_holds b a tc htc

/-- corollary in plain words: a unit whose limits admit `tc` ends with exactly `tc` -/
theorem setTc_exact (b : Bus) (a : Addr) (tc : Nat) (htc : tc < 65535) (u : Gear) (hu : u ∈ b)
    (hadd : u.addressed a = true) (h8 : u.types.contains 8 = true)
    (hlim : u.coolest ≤ tc ∧ tc ≤ u.warmest) :
    (([Cmd.dtr0 (tc % 256), .dtr1 (tc / 256), .setTempTc a, .activate a].foldl Gear.execSt u).tc) = tc := by
  have hset : ∀ c ∈ [Cmd.dtr0 (tc % 256), .dtr1 (tc / 256), .setTempTc a, .activate a], isSetCmd c = true := by
    intro c hc; simp at hc; rcases hc with rfl | rfl | rfl | rfl <;> rfl
  have hv := cview_fold _ hset u
  have hc := setTc_cview u.cview a tc (by omega)
  simp only [] at hc
  rw [← hv, cview_isDt8] at hc
  have hd : u.isDt8 a = true := by
    show (u.addressed a && u.types.contains 8) = true
    rw [hadd, h8]; rfl
  have := hc.2.2.2.2.2.2
  simp only [hd, if_true] at this
  have hne : ¬ tc = MASK16 := by simp [MASK16]; omega
  have h1 := this.1
  simp only [hne, if_false] at h1
  have hcl : Gear.clamp u.coolest u.warmest tc = tc := by
    simp only [Gear.clamp]
    have h2 : ¬ tc < u.coolest := by omega
    have h3 : ¬ u.warmest < tc := by omega
    simp only [h2, h3, if_false]
  show ((List.foldl Gear.execSt u _).cview).tc = tc
  rw [h1]; exact hcl

/-- **setTcLimit_spec** — for every `tc < 65536` and each of the four limit selectors: DTR0, DTR1,
DTR2 are loaded (low byte, high byte, selector) before STORE COLOUR TEMPERATURE Tc LIMIT; the
selected limit of every addressed colour unit is exactly `tc`; nothing else moves. -/
theorem setTcLimit_spec (b : Bus) (d : Dest) (a : Addr) (hd : d.resolve = .ok a) (w tc : Nat)
    (hw : w < 4) (htc : tc < 65536) :
    setTcLimitPost b a w tc (runBus (setTcLimit d (.int w) (.int tc)) b) = true := by
  rw [(dest_int d a hd (.int tc) (.int w) none).2.1]; exact setTcLimitPost_holds b a w tc hw htc

/-- **query_spec** — for every selector and every bus whose registers are 16 bits wide: the four
commands QUERY ACTUAL LEVEL, DTR0(selector), QUERY COLOUR VALUE, QUERY CONTENT DTR0; the result is
exactly the 16-bit register the one addressed colour unit reports when its high byte is below
MASK, and `None` for MASK, an unsupported selector, nobody, a non-colour unit, or colliding
answers; no unit's colour state changes. -/
theorem query_spec (b : Bus) (hwf : ColourWF b) (d : Dest) (a : Addr) (hd : d.resolve = .ok a) (sel : Nat) :
    queryColourPost b a sel (runBus (queryColour d (some sel)) b) = true := by
  rw [(dest_int d a hd .none .none (some sel)).2.2]; exact queryColourPost_holds b hwf a sel

/-- **query_none** — against every stream of answers: four commands, and the value is
`LSB + 256·MSB` exactly when both bytes arrive cleanly and the MSB is not MASK — silence or a
framing error on either byte, or MASK, give `None`. -/
theorem query_none (answers : Nat → Resp) (a : Addr) (sel : Nat) :
    queryColourStreamPost answers (runStream (queryColour (.addr a) (some sel)) answers) = true :=
  queryColourStreamPost_holds answers a sel

/-- **rejects_early** — a colour temperature that does not fit 16 bits is refused before anything
is sent (both sequences), and so is a selector that is not a `QueryColourValueDTR` member. -/
theorem rejects_early (b : Bus) (a : Addr) (i : Int) (h : i < 0 ∨ 65536 ≤ i) (w : PyVal) :
    (runBus (setTc (.addr a) (.int i)) b).trace = [] ∧
    (runBus (setTc (.addr a) (.int i)) b).res = .raised .OverflowError ∧
    (runBus (setTcLimit (.addr a) w (.int i)) b).trace = [] ∧
    (runBus (setTcLimit (.addr a) w (.int i)) b).res = .raised .OverflowError ∧
    (runBus (queryColour (.addr a) none) b).trace = [] ∧
    (runBus (queryColour (.addr a) none) b).res = .raised .TypeError := by
  have hb : tcBytes (.int i) = .error .OverflowError := by
    cases i with
    | ofNat n =>
      have : ¬ n < 65536 := by
        rcases h with h | h
        · exact absurd h (by simp)
        · have : (65536 : Int) ≤ (n : Int) := h
          omega
      show (if n < 65536 then _ else _) = _
      rw [if_neg this]
    | negSucc n => rfl
  simp only [runBus, setTc, setTcLimit, queryColour, withDest, Dest.resolve, hb, Prog.run, and_self]

/-! ## the selector enumerations and command frames of the working tree -/

/-- IEC 62386-209 Table 11 selector codes (hand-transcribed): actual 0–15, primaries 64–82,
limits 128–131, temporary 192–208, report 224–240 -/
def table11 : List Nat :=
  (List.range 16) ++ (List.range 19).map (· + 64) ++ (List.range 4).map (· + 128) ++
  (List.range 17).map (· + 192) ++ (List.range 17).map (· + 224)

/-- the library's `QueryColourValueDTR` is exactly Table 11 -/
theorem selectors_gen : Gen.GearSeqEnums.queryColourValueDTR.map (·.2) = table11 := by decide +kernel

/-- the library's `StoreColourTemperatureTcLimitDTR2` selectors are the four the specification
unit stores: coolest 0, warmest 1, physical coolest 2, physical warmest 3 -/
theorem tcLimit_gen : Gen.GearSeqEnums.tcLimitDTR2 =
    [("TcCoolest", 0), ("TcWarmest", 1), ("TcPhysicalCoolest", 2), ("TcPhysicalWarmest", 3)] := by
  decide +kernel

/-- every selector of the library is answered exactly (instance of `query_spec`) -/
theorem query_spec_gen (b : Bus) (hwf : ColourWF b) (a : Addr) :
    ∀ s ∈ Gen.GearSeqEnums.queryColourValueDTR,
      queryColourPost b a s.2 (runBus (queryColour (.addr a) (some s.2)) b) = true :=
  fun s _ => queryColourPost_holds b hwf a s.2

def sampleCmds : List Cmd := GearCmds.sampleCmds

/-- the frames, class names and device types the model gives its commands are those the
working tree's command classes carry (regenerated on every run) -/
theorem cmd_frames_gen :
    sampleCmds.map (fun c => (c.cls, c.frame, c.devicetype)) =
      Gen.GearSeqEnums.cmdSamples.map (fun r => (r.1, r.2.1, r.2.2.1)) := GearCmds.cmd_frames_gen

/-- the `sendtwice` flag of every command class the gear sequences use is what the standard requires -/
theorem cmd_sendtwice_gen :
    sampleCmds.map (fun c => (c.cls, c.twiceRequired)) =
      Gen.GearSeqEnums.cmdSamples.map (fun r => (r.1, r.2.2.2.1)) := GearCmds.cmd_sendtwice_gen

theorem execFlagged_eq_exec (b : Bus) (c : Cmd) : Bus.execFlagged b c c.twiceRequired = Bus.exec b c :=
  GearCmds.execFlagged_eq_exec b c

theorem addr_bytes_gen :
    [Addr.short 0, .short 63, .group 0, .group 15, .broadcast, .unaddressed].map
      (fun a => (Cmd.queryGearPresent a).frame) = Gen.GearSeqEnums.addrSamples := by decide +kernel

/-! ## Non-vacuity -/

def tcUnit : Gear := { short := some 1, types := [8], coolest := 153, warmest := 370, tc := 200 }

example : (runBus (setTc (.int 1) (.int 300)) [tcUnit]).st.map (·.tc) = [300] := by decide +kernel
example : (runBus (setTc (.int 1) (.int 100)) [tcUnit]).st.map (·.tc) = [153] := by decide +kernel
example : (runBus (setTc (.int 1) (.int 0x1234)) [tcUnit]).trace
    = [.dtr0 0x34, .dtr1 0x12, .setTempTc (.short 1), .activate (.short 1)] := by decide +kernel
example : (runBus (queryColour (.int 1) (some 2)) [tcUnit]).res = .ret (some 200) := by decide +kernel
example : (runBus (queryColour (.int 1) (some 130)) [tcUnit]).res = .ret (some 370) := by decide +kernel
example : (runBus (queryColour (.int 1) (some 0)) [tcUnit]).res = .ret none := by decide +kernel
example : (runBus (setTcLimit (.int 1) (.int 1) (.int 400)) [tcUnit]).st.map (·.warmest) = [400] := by
  decide +kernel

end DaliVerif.Props.C14
