import DaliVerif.Model.CallerProgram
/-!
# C16, serial gateways: what a command's confirmation wait can consume (K6)

The SCI gateway reports everything that is not a DALI frame - confirmations, and the error report that follows a
garbled answer - as "information frames" in ONE queue (`mail` entries with tag 0).  `send()` waits for "the next
information frame" after each write.  The repaired `send()` discards every stale report in front of the
EnableDeviceType prefix as well as in front of the command (`prefixFlush`); the unchanged one only in front of
the command.  Stated on the model of `Model/CallerProgram.lean` / `Model/Async.lean`:

* `sci_send_shape`: the program text - both waits for a confirmation are directly preceded (lock, flush, inner
  lock, write) by a flush;
* `flush_leaves_no_stale_report`: the flush step leaves no tag-0 entry, so whatever a later wait takes was delivered
  after it;
* `k6_witness_old_sci_send`: on the unchanged program a report left behind by the previous exchange IS taken for
  the prefix's confirmation: the command is written while the gateway has not confirmed the prefix
  (two frames in flight), which the repaired program cannot do (`k6_repaired`).
-/
namespace DaliVerif.Props.C16Serial
open DaliVerif DaliVerif.Async

/-- SCI `send` of a command that needs a device type, as the repaired code writes it -/
theorem sci_send_shape (c : Cmd) (h : c.frame.dt ≠ 0) :
    (serialSend c .sci).map (·.act) =
      [.connCheck, .acq, .flush, .iacq, .write (edtFrame c.frame.dt), .await .confirm true, .irel,
       .flush, .iacq, .write c.frame, .await .confirm true, .irel] ++
      (if c.query then [.poll] else []) ++ [.rel] := by
  obtain ⟨⟨bits, data, twice, dt⟩, query⟩ := c
  simp only at h
  cases query <;> simp [serialSend, prefixFlush, serialSendBody, serialCommand, h]

/-- the flush step (SCI `reset_dali_response`) leaves no stale report behind -/
theorem flush_leaves_no_stale_report {s s' : St} {t : Tid} {tk : Task} {rest : List Step} {st : Step}
    (ht : s.tasks[t]? = some tk) (hp : tk.prog = st :: rest) (ha : st.act = .flush)
    (h : step? s (.act t) = some s') : ∀ m ∈ s'.mail, m.1 ≠ 0 := by
  simp only [step?, actStep, ht, hp, ha] at h
  cases h
  intro m hm
  simpa [setTask] using (List.mem_filter.mp hm).2

/-- the unchanged SCI `send`: no flush in front of the prefix -/
def oldSciSend (c : Cmd) : Task :=
  { prog := [ { act := .connCheck }, { act := .acq } ] ++
      (if c.frame.dt = 0 then [] else serialCommand .sci (edtFrame c.frame.dt) [Act.rel]) ++
      serialSendBody .sci c [Act.rel] ++ [ { act := .rel } ] }

def c1 : Cmd := ⟨⟨16, 0x01F1, false, 1⟩, true⟩      -- QueryBatteryCharge(0), device type 1

def s0 : St := { cap := 1, conn := { limit := none, hsSteps := 0 } }

/-- K6: a report left in the queue (the error information frame of the previous, garbled answer) is consumed by
the unchanged program's wait for the PREFIX's confirmation - the program reaches the write of the command itself
(two writes on the wire) although the gateway has delivered nothing since the prefix was written -/
theorem k6_witness_old_sci_send :
    (run? s0 [.env .connect, .deliver 0 .confirm, .spawn (oldSciSend c1),
              .act 0, .act 0, .act 0, .act 0, .act 0, .act 0, .act 0, .act 0, .act 0]).map
      (fun s => s.wire.map (·.2.data)) = some [0xC101, 0x01F1] := by decide

/-- … the repaired program, on the same schedule, blocks at the prefix's confirmation (the stale report is gone):
the ninth caller step is not enabled, only the prefix has been written -/
theorem k6_repaired :
    (run? s0 [.env .connect, .deliver 0 .confirm, .spawn (mkTask .sci (.send c1 true)),
              .act 0, .act 0, .act 0, .act 0, .act 0]).map (fun s => s.wire.map (·.2.data)) = some [0xC101] ∧
    (run? s0 [.env .connect, .deliver 0 .confirm, .spawn (mkTask .sci (.send c1 true)),
              .act 0, .act 0, .act 0, .act 0, .act 0, .act 0]) = none := by decide

end DaliVerif.Props.C16Serial
