import DaliVerif.Proofs.EncodeInv
import DaliVerif.Props.C02
import DaliVerif.Props.C18
/-!
# End to end: command object → frame → gateway packet → frame → the same command

Composition of three layers that are proved separately: the constructors'
frame assembly (C02/C03, `Cmd.encode`), the `Frame` invariant (C05) and the
drivers' wire encoders (C18).  For every legal command object and every
gateway: the packet the driver writes carries — in the field and alignment the
gateway's format prescribes — a frame that decodes (under the object's own
device type) to the very object the caller built.
-/
set_option linter.unusedSimpArgs false
namespace DaliVerif.Props.EndToEnd
open DaliVerif Spec

theorem wf_objOK (T : Cmd.Tables) (c : Cmd.Cmd) (h : Cmd.WF T c) : Cmd.ObjOK c := by
  cases c <;> simp only [Cmd.ObjOK] <;> simp only [Cmd.WF] at h <;> first | exact h.elim | trivial | exact h.1 | exact h.2.1

/-- a legal object's frame is a well-formed bit vector that decodes to the object -/
theorem frame_of_legal (T : Cmd.Tables) (hT : Cmd.TableOK2 T) (c : Cmd.Cmd) (hc : Cmd.WF T c)
    (f : Frame) (hf : Cmd.encode c = .ok f) :
    f.data < 2 ^ f.bits ∧ Cmd.decode T f.bits f.data (Cmd.dtOf c) (Cmd.mapFor c) = c := by
  have hi := Cmd.encode_inv c f (wf_objOK T c hc) hf
  obtain ⟨b, d, he, hd⟩ := Props.C02.decode_construct T hT c hc
  rw [hf] at he
  injection he with he
  subst he
  exact ⟨hi.2, hd⟩

/-- **LUBA**: the bit count in byte 4 and the big-endian data bytes from byte 6
of the packet written for a legal command decode to that command. -/
theorem luba_delivers (T : Cmd.Tables) (hT : Cmd.TableOK2 T) (c : Cmd.Cmd) (hc : Cmd.WF T c)
    (w : Wire.Cmd) (hw : Cmd.encode c = .ok w.frame) (p : List Nat) (h : Wire.Luba.encode w = .ok p) :
    Cmd.decode T (p.getD 4 0) (Frame.ofBytesBE ((p.drop 6).take (p.getD 4 0 / 8))) (Cmd.dtOf c) (Cmd.mapFor c) = c := by
  obtain ⟨hd, hdec⟩ := frame_of_legal T hT c hc w.frame hw
  obtain ⟨h1, h2, _⟩ := Props.C18.luba_frame_recoverable w p hd h
  rw [h2, h1]; exact hdec

/-- **SCI**: the data bytes from byte 1 (width from the mode nibble) decode to the command -/
theorem sci_delivers (T : Cmd.Tables) (hT : Cmd.TableOK2 T) (c : Cmd.Cmd) (hc : Cmd.WF T c)
    (w : Wire.Cmd) (hw : Cmd.encode c = .ok w.frame) (p : List Nat) (h : Wire.Sci.encode w = .ok p) :
    Cmd.decode T w.frame.bits (Frame.ofBytesBE ((p.drop 1).take (w.frame.bits / 8))) (Cmd.dtOf c) (Cmd.mapFor c) = c := by
  obtain ⟨hd, hdec⟩ := frame_of_legal T hT c hc w.frame hw
  obtain ⟨h1, _, _⟩ := Props.C18.sci_frame_recoverable w p hd h
  rw [h1]; exact hdec

/-- **Tridonic**: bytes 4..7 of the 64-byte report decode to the command -/
theorem tridonic_delivers (T : Cmd.Tables) (hT : Cmd.TableOK2 T) (c : Cmd.Cmd) (hc : Cmd.WF T c)
    (w : Wire.Cmd) (hw : Cmd.encode c = .ok w.frame) (seq : Nat) (p : List Nat)
    (h : Wire.Tridonic.encode seq w = .ok p) :
    Cmd.decode T w.frame.bits (Frame.ofBytesBE ((p.drop 4).take 4)) (Cmd.dtOf c) (Cmd.mapFor c) = c := by
  obtain ⟨hd, hdec⟩ := frame_of_legal T hT c hc w.frame hw
  obtain ⟨h1, _, _⟩ := Props.C18.tridonic_frame_recoverable seq w p hd h
  rw [h1]; exact hdec

/-- **hasseb (HID)**: every 2-byte write decodes to the command -/
theorem hidhasseb_delivers (T : Cmd.Tables) (hT : Cmd.TableOK2 T) (c : Cmd.Cmd) (hc : Cmd.WF T c)
    (w : Wire.Cmd) (hw : Cmd.encode c = .ok w.frame) (ws : List (List Nat))
    (h : Wire.HidHasseb.encode w = .ok ws) :
    ∀ x ∈ ws, Cmd.decode T w.frame.bits (Frame.ofBytesBE x) (Cmd.dtOf c) (Cmd.mapFor c) = c := by
  obtain ⟨_, hdec⟩ := frame_of_legal T hT c hc w.frame hw
  intro x hx
  rw [Props.C18.hidhasseb_frame_recoverable w ws h x hx]; exact hdec

/-- **daliserver**: bytes 2.. of each message decode to the command -/
theorem daliserver_delivers (T : Cmd.Tables) (hT : Cmd.TableOK2 T) (c : Cmd.Cmd) (hc : Cmd.WF T c)
    (w : Wire.Cmd) (hw : Cmd.encode c = .ok w.frame) (ws : List (List Nat))
    (h : Wire.DaliServer.encode w = .ok ws) :
    ∀ x ∈ ws, Cmd.decode T w.frame.bits (Frame.ofBytesBE (x.drop 2)) (Cmd.dtOf c) (Cmd.mapFor c) = c := by
  obtain ⟨hd, hdec⟩ := frame_of_legal T hT c hc w.frame hw
  intro x hx
  rw [Props.C18.daliserver_frame_recoverable w hd ws h x hx]; exact hdec

end DaliVerif.Props.EndToEnd
