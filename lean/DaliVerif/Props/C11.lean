import DaliVerif.Proofs.MemValueLemmas
import DaliVerif.Gen.Memory
/-!
# C11 — memory values decode any raw bytes totally and per the DiiA/IEC layout

Property theorems only.  `Mem.*` is the model of the pure value interpretation
of `dali/memory/*.py` (`Model/MemValue.lean`, tied to the code exhaustively
for every 1- and 2-byte value and by boundary + random strings for wider
ones), `Spec.Mem.interpret` the reference interpretation written from the
documents' encoding rules, `Spec.Mem.memoryLayout` the independently
transcribed memory map, `Gen.memValues` / `Gen.memBanks` the tables
regenerated from the working tree.

Shape: (1) the regenerated map *is* the transcribed map
(`layout_matches_standard`, kernel evaluation on every run) — and that
includes, per value, that its implementors form the documented encoding kind
and that the MASK/TMASK byte patterns the metaclass computed are all-ones /
all-ones-minus-one of the payload width; (2) hence for every declared value
and **every** raw string of its length the model of `check_raw … or
raw_to_value` equals the reference interpretation and never raises
(`interpret_per_standard`, `interpret_total`; the generic step is
`Mem.interpret_eq_spec`, no enumeration); (3) the reference interpretation
recognises MASK / TMASK exactly, turns out-of-range numbers into Invalid and
follows the documented encodings; (4) value→raw→value round trips; (5) no
overlap, lockable locations only in lockable banks.
-/
namespace DaliVerif.Props.C11
open DaliVerif DaliVerif.Mem DaliVerif.Spec.Mem

/-! ## (1) the memory map -/

set_option maxRecDepth 100000 in
/-- "Each value sits at the bank, location range, access type and width that
IEC 62386-102 and DiiA parts 251-253 give it" — and has the documented
encoding kind, range, MASK/TMASK support and mask byte patterns: the row read
off every generated value equals the transcribed row, in order. -/
theorem layout_matches_standard :
    Gen.memValues.map rowOf = Spec.Mem.memoryLayout.map (fun r => some (unpin r)) := by
  decide +kernel

/-- bank numbers, last accessible location, lock and latch support -/
theorem banks_match_standard : Gen.memBanks.map bankCore = Spec.Mem.memoryBanks := by
  decide +kernel

set_option maxRecDepth 100000 in
/-- "no two values overlap": inside each bank all declared locations are distinct -/
theorem no_overlap : ∀ b ∈ Gen.memBanks, (bankAddrs Gen.memValues b.key).Nodup := by
  decide +kernel

set_option maxRecDepth 100000 in
/-- the bank's own location table (`bank.locations`, what `read_all` and
`factory_default_contents` walk) is exactly the union of its values' locations -/
theorem occupied_consistent : ∀ b ∈ Gen.memBanks, occupiedOK Gen.memValues b = true := by
  decide +kernel

set_option maxRecDepth 100000 in
/-- "lockable locations only exist in banks that have a lock byte" -/
theorem lockable_only_in_lock_banks : ∀ v ∈ Gen.memValues, lockableOK Gen.memBanks v = true := by
  decide +kernel

theorem row_exists (v : MemValue) (hv : v ∈ Gen.memValues) :
    ∃ r ∈ Spec.Mem.memoryLayout, rowOf v = some (unpin r) := by
  have h1 : rowOf v ∈ Gen.memValues.map rowOf := List.mem_map_of_mem hv
  rw [layout_matches_standard] at h1
  obtain ⟨r, hr, he⟩ := List.mem_map.mp h1
  exact ⟨r, hr, he.symm⟩

/-- "mask patterns match width": the byte patterns the metaclass computed at
declaration time are all-ones / all-ones-minus-one over the payload (the bytes
after the scale byte for scaled values), and absent when not supported. -/
theorem mask_patterns_match_width (v : MemValue) (hv : v ∈ Gen.memValues) :
    ∃ r ∈ Spec.Mem.memoryLayout, rowOf v = some (unpin r) ∧
      v.mask = (if v.maskSupported then some (allOnes (payloadLen r.kind r.width)) else none) ∧
      v.tmask = (if v.tmaskSupported then some (allOnesMinusOne (payloadLen r.kind r.width)) else none) := by
  obtain ⟨r, hr, he⟩ := row_exists v hv
  have F := rowFacts v _ he
  exact ⟨r, hr, he, F.mask, F.tmask⟩

/-- the numeric meaning of the patterns: `2^(8n) − 1` and `2^(8n) − 2` -/
theorem be_allOnes (n : Nat) : be (allOnes n) = 256 ^ n - 1 := by
  have := be_replicate n
  unfold allOnes; omega

theorem be_allOnesMinusOne (n : Nat) (hn : 1 ≤ n) : be (allOnesMinusOne n) = 256 ^ n - 2 := by
  obtain ⟨k, rfl⟩ : ∃ k, n = k + 1 := ⟨n - 1, by omega⟩
  have := be_replicate k
  simp only [allOnesMinusOne, be_append_singleton, Nat.pow_succ]
  omega

/-! ## (2) the library's interpretation is the reference interpretation, totally -/

/-- "For every declared memory value and every byte string of its length,
interpretation … returns either a value or one of the flags … and numbers,
scaled numbers, temperatures, versions, booleans and strings follow their
documented encodings": the model of `check_raw(raw) or raw_to_value(raw)`
equals the reference interpretation of the value's transcribed row, for every
raw string of the value's length. -/
theorem interpret_per_standard (v : MemValue) (hv : v ∈ Gen.memValues) :
    ∃ r ∈ Spec.Mem.memoryLayout, r.bank = v.bank ∧ r.name = v.name ∧ r.width = v.locs.length ∧
      ∀ raw : List Nat, raw.length = r.width →
        Mem.interpret v raw = some (.ok (Spec.Mem.interpret (unpin r) raw)) := by
  obtain ⟨r, hr, he⟩ := row_exists v hv
  have F := rowFacts v _ he
  refine ⟨r, hr, ?_, ?_, F.width, fun raw hlen => interpret_eq_spec v _ he raw hlen⟩
  · unfold rowOf at he
    split at he
    · split at he
      · injection he with he
        have := congrArg Row.bank he
        simpa [unpin] using this.symm
      · contradiction
    · contradiction
  · unfold rowOf at he
    split at he
    · split at he
      · injection he with he
        have := congrArg Row.name he
        simpa [unpin] using this.symm
      · contradiction
    · contradiction

/-- "interpretation never raises": a value or a flag for every raw string -/
theorem interpret_total (v : MemValue) (hv : v ∈ Gen.memValues) (raw : List Nat)
    (hlen : raw.length = v.locs.length) : ∃ m, Mem.interpret v raw = some (.ok m) := by
  obtain ⟨r, -, -, -, hw, h⟩ := interpret_per_standard v hv
  exact ⟨_, h raw (by rw [hw, hlen])⟩

/-- the generic step behind the two theorems above, for *any* value record
(not only the ones declared today): if its row can be read off, the model
agrees with the reference interpretation on every raw string of its length. -/
theorem interpret_generic (v : MemValue) (r : Row) (h : rowOf v = some r) (raw : List Nat)
    (hlen : raw.length = r.width) :
    Mem.interpret v raw = some (.ok (Spec.Mem.interpret r raw)) :=
  interpret_eq_spec v r h raw hlen

/-! ## (3) what the reference interpretation does -/

/-- "MASK … recognised exactly at the all-ones pattern (sign- and scale-byte
aware) when the value supports it": MASK iff supported, the scale byte (if
any) is a legal power of ten, and the payload is all ones. -/
theorem mask_exact (r : Row) (raw : List Nat) :
    Spec.Mem.interpret r raw = .flag .MASK ↔
      scaleOK r raw = true ∧ r.mask = true ∧ payload r raw = allOnes (payload r raw).length := by
  unfold Spec.Mem.interpret
  have hd := decode_not_mask r raw
  by_cases hs : scaleOK r raw = true
  · by_cases hm : (r.mask && payload r raw == allOnes (payload r raw).length) = true
    · simp only [hs, hm, Bool.not_true, Bool.false_eq_true, if_false, if_true, true_and, true_iff]
      simpa using hm
    · simp only [hs, hm, Bool.not_true, Bool.false_eq_true, if_false, true_and]
      have hm' : ¬ (r.mask = true ∧ payload r raw = allOnes (payload r raw).length) := by
        simpa using hm
      constructor
      · intro h
        split at h
        · simp at h
        · exact absurd h hd.1
      · intro h; exact absurd h hm'
  · simp [hs]

/-- TMASK iff supported, not MASK, legal scale byte, payload all-ones minus one -/
theorem tmask_exact (r : Row) (raw : List Nat) :
    Spec.Mem.interpret r raw = .flag .TMASK ↔
      scaleOK r raw = true ∧
      ¬ (r.mask = true ∧ payload r raw = allOnes (payload r raw).length) ∧
      r.tmask = true ∧ payload r raw = allOnesMinusOne (payload r raw).length := by
  unfold Spec.Mem.interpret
  have hd := decode_not_mask r raw
  by_cases hs : scaleOK r raw = true
  · by_cases hm : (r.mask && payload r raw == allOnes (payload r raw).length) = true
    · have hm' : (r.mask = true ∧ payload r raw = allOnes (payload r raw).length) := by
        simpa using hm
      simp only [hs, hm, Bool.not_true, Bool.false_eq_true, if_false, if_true, true_and]
      constructor
      · intro h; simp at h
      · intro h; exact absurd hm' h.1
    · have hm' : ¬ (r.mask = true ∧ payload r raw = allOnes (payload r raw).length) := by
        simpa using hm
      simp only [hs, hm, Bool.not_true, Bool.false_eq_true, if_false, true_and, hm', not_false_eq_true]
      by_cases ht : (r.tmask && payload r raw == allOnesMinusOne (payload r raw).length) = true
      · simp only [ht, if_true, true_iff]
        simpa using ht
      · have ht' : ¬ (r.tmask = true ∧ payload r raw = allOnesMinusOne (payload r raw).length) := by
          simpa using ht
        simp only [ht, Bool.false_eq_true, if_false]
        constructor
        · intro h; exact absurd h hd.2
        · intro h; exact absurd h ht'
  · simp [hs]

/-- "range limits produce Invalid" (plain numbers; the same test guards fixed
and unit scaled numbers, temperatures, versions and CCT in `decode`) -/
theorem range_invalid (r : Row) (raw : List Nat) (hk : r.kind = .number)
    (hm : ¬ (r.mask = true ∧ raw = allOnes raw.length))
    (ht : ¬ (r.tmask = true ∧ raw = allOnesMinusOne raw.length)) :
    Spec.Mem.interpret r raw =
      if inRange r (be raw) then .int (be raw) else .flag .Invalid := by
  have hm' : (r.mask && raw == allOnes raw.length) = false := by
    cases h : (r.mask && raw == allOnes raw.length)
    · rfl
    · exact absurd (by simpa using h) hm
  have ht' : (r.tmask && raw == allOnesMinusOne raw.length) = false := by
    cases h : (r.tmask && raw == allOnesMinusOne raw.length)
    · rfl
    · exact absurd (by simpa using h) ht
  simp only [Spec.Mem.interpret, scaleOK, payload, hk, hm', ht', decode, Bool.not_true,
    Bool.false_eq_true, if_false]

/-- an illegal scale byte (7..249, i.e. outside −6..6) makes a scaled value Invalid
whatever follows -/
theorem scale_byte_invalid (r : Row) (s : Nat) (rest : List Nat) (hk : r.kind = .unitScaled)
    (hs : 6 < s ∧ s < 250) : Spec.Mem.interpret r (s :: rest) = .flag .Invalid := by
  simp [Spec.Mem.interpret, scaleOK, hk, hs]

/-- big-endian: the first byte is the most significant -/
theorem be_cons (b : Nat) (rest : List Nat) : be (b :: rest) = b * 256 ^ rest.length + be rest := rfl

/-- a byte string of length `n` denotes a number below `256^n` -/
theorem be_bound (l : List Nat) (h : ∀ b ∈ l, b < 256) : be l < 256 ^ l.length := be_lt l h

/-- two's complement of the scale byte -/
theorem signedByte_spec (b : Nat) (hb : b < 256) :
    -128 ≤ signedByte b ∧ signedByte b < 128 ∧ (signedByte b - (b : Int)) % 256 = 0 := by
  unfold signedByte
  by_cases h : 128 ≤ b <;> simp only [h, if_true, if_false] <;> omega

/-- scaled energy / power values: payload × 10^(signed scale byte) -/
theorem unit_scaled_value (r : Row) (s : Nat) (rest : List Nat) (hk : r.kind = .unitScaled) :
    decode r (s :: rest) =
      if inRange r (be rest) then .dec (be rest) (signedByte s) else .flag .Invalid := by
  simp [decode, hk]

/-- temperatures are stored with an offset (60 °C in parts 253) -/
theorem temperature_value (r : Row) (raw : List Nat) (off : Int) (hk : r.kind = .temperature off) :
    decode r raw = if inRange r (be raw) then .int ((be raw : Int) - off) else .flag .Invalid := by
  simp [decode, hk]

/-- fixed decimal scaling -/
theorem decimal_value (r : Row) (raw : List Nat) (m e : Int) (hk : r.kind = .decimal m e) :
    decode r raw = if inRange r (be raw) then .dec (m * be raw) e else .flag .Invalid := by
  simp [decode, hk]

/-- single-byte versions: major in bits 7..2, minor in bits 1..0, 0xFF = not implemented -/
theorem version_byte (r : Row) (n : Nat) (hk : r.kind = .version) (hmin : r.min = none)
    (hmax : r.max = none) :
    decode r [n] = if n = 255 then .text "not implemented"
      else .text (toString ((n : Int) / 4) ++ "." ++ toString ((n : Int) % 4)) := by
  have : ((n : Int) = 255) ↔ n = 255 := by omega
  simp [decode, hk, inRange, hmin, hmax, be, this]

/-- flags are 0 / 1, anything else is Invalid -/
theorem flag_bit (r : Row) (b : Nat) (rest : List Nat) (hk : r.kind = .flagBit) :
    decode r (b :: rest) =
      if b = 0 then .bool false else if b = 1 then .bool true else .flag .Invalid := by
  simp [decode, hk]

/-- strings: the bytes before the first NUL, all ASCII, else Invalid -/
theorem text_value (r : Row) (raw : List Nat) (hk : r.kind = .text) :
    decode r raw = if (cString raw).all (· < 128) then .ascii (cString raw) else .flag .Invalid := by
  simp [decode, hk]

/-! ## (4) round trips -/

/-- "converting a plain number … to raw bytes and back is the identity":
for a value whose `value_to_raw` / `raw_to_value` are `NumericValue`'s, every
`x` that fits the width is written as `width` big-endian bytes that read back
as `x`. -/
theorem roundtrip_number (v : MemValue) (hw : v.v2r = .numeric) (hr : v.r2v = .numeric)
    (hs : v.signed = false) (x : Nat) (hx : x < 256 ^ v.locs.length) :
    ∃ raw, valueToRaw v (.int x) = some (.ok raw) ∧ raw.length = v.locs.length ∧
      rawToValue v raw = some (.ok (.int x)) := by
  refine ⟨toBytes x v.locs.length, ?_, ?_, ?_⟩
  · have hx' : (x : Int) < (256 : Int) ^ v.locs.length := by
      have h := Int.ofNat_lt.mpr hx
      rw [Int.natCast_pow] at h
      exact h
    have hx0 : (0 : Int) ≤ (x : Int) := Int.natCast_nonneg x
    have e1 : (WVal.int (x : Int) == WVal.str [77, 65, 83, 75]) = false := rfl
    have e2 : (WVal.int (x : Int) == WVal.str [84, 77, 65, 83, 75]) = false := rfl
    unfold valueToRaw
    simp only [hw, hs, e1, e2, Bool.and_false, Bool.false_eq_true, if_false, intToBytes]
    rw [if_pos ⟨hx0, hx'⟩]
    rfl
  · rw [toBytes_eq, Frame.toBytesBE_length]
  · simp only [rawToValue, hr, hs, fromBytes, Bool.false_and, Bool.false_eq_true, if_false, beNat_toBytes]
    rw [Nat.mod_eq_of_lt hx]

/-- the `signed = True` branch of `NumericValue` (no value of the current tree
sets it, but the class supports it and a vendor bank may): every integer
`-256^n/2 ≤ x < 256^n/2` is written as `n` two's-complement big-endian bytes
that read back as `x`, for every width `n ≥ 1`. -/
theorem roundtrip_signed (v : MemValue) (hw : v.v2r = .numeric) (hr : v.r2v = .numeric)
    (hs : v.signed = true) (hn : 1 ≤ v.locs.length) (x : Int)
    (hlo : -((256 : Int) ^ v.locs.length / 2) ≤ x) (hhi : x < (256 : Int) ^ v.locs.length / 2) :
    ∃ raw, valueToRaw v (.int x) = some (.ok raw) ∧ raw.length = v.locs.length ∧
      rawToValue v raw = some (.ok (.int x)) := by
  refine ⟨toBytes (x % (256 : Int) ^ v.locs.length).toNat v.locs.length, ?_, toBytes_length _ _, ?_⟩
  · have e1 : (WVal.int x == WVal.str [77, 65, 83, 75]) = false := rfl
    have e2 : (WVal.int x == WVal.str [84, 77, 65, 83, 75]) = false := rfl
    have hn0 : v.locs.length ≠ 0 := by omega
    unfold valueToRaw
    simp only [hw, hs, e1, e2, Bool.and_false, Bool.false_eq_true, if_false, intToBytes, if_true, hn0]
    rw [if_pos ⟨hlo, hhi⟩]
  · simp only [rawToValue, hr, hs]
    rw [fromBytes_signed_toBytes _ hn x hlo hhi]

/-- … and an integer that does not fit the signed width is refused with
`OverflowError` (nothing is written). -/
theorem signed_overflow (v : MemValue) (hw : v.v2r = .numeric) (hs : v.signed = true)
    (hn : 1 ≤ v.locs.length) (x : Int)
    (hx : x < -((256 : Int) ^ v.locs.length / 2) ∨ (256 : Int) ^ v.locs.length / 2 ≤ x) :
    valueToRaw v (.int x) = some (.error .OverflowError) := by
  have e1 : (WVal.int x == WVal.str [77, 65, 83, 75]) = false := rfl
  have e2 : (WVal.int x == WVal.str [84, 77, 65, 83, 75]) = false := rfl
  have hn0 : v.locs.length ≠ 0 := by omega
  unfold valueToRaw
  simp only [hw, hs, e1, e2, Bool.and_false, Bool.false_eq_true, if_false, intToBytes, if_true, hn0]
  rw [if_neg (by omega)]

/-- "… or string": an ASCII string (characters 0x01..0x7F) that fits is
written NUL-terminated (when shorter than the field) and reads back unchanged. -/
theorem roundtrip_string (v : MemValue) (hw : v.v2r = .string) (hr : v.r2v = .string)
    (s : List Nat) (hs : ∀ c ∈ s, 1 ≤ c ∧ c < 128) (hl : s.length ≤ v.locs.length) :
    ∃ raw, valueToRaw v (.str s) = some (.ok raw) ∧ raw.length ≤ v.locs.length ∧
      rawToValue v raw = some (.ok (.ascii s)) := by
  have hall : s.all (· < 128) = true := by
    rw [List.all_eq_true]; intro c hc; simpa using (hs c hc).2
  have hnz : ∀ c ∈ s, c ≠ 0 := fun c hc => by have := (hs c hc).1; omega
  by_cases hlt : s.length < v.locs.length
  · refine ⟨s ++ [0], ?_, ?_, ?_⟩
    · have : ¬ s.length > v.locs.length := by omega
      simp [valueToRaw, hw, hall, this, hlt]
    · simp; omega
    · simp only [rawToValue, hr, untilNul_append_nul s [] hnz, hall, if_true]
  · refine ⟨s, ?_, hl, ?_⟩
    · have : ¬ s.length > v.locs.length := by omega
      simp [valueToRaw, hw, hall, this, hlt]
    · simp only [rawToValue, hr, untilNul_noNul s hnz, hall, if_true]

/-- every declared plain number round-trips -/
theorem roundtrip_declared_numbers (v : MemValue) (hv : v ∈ Gen.memValues)
    (hw : v.v2r = .numeric) (hr : v.r2v = .numeric) (x : Nat) (hx : x < 256 ^ v.locs.length) :
    ∃ raw, valueToRaw v (.int x) = some (.ok raw) ∧ raw.length = v.locs.length ∧
      rawToValue v raw = some (.ok (.int x)) := by
  obtain ⟨r, -, he⟩ := row_exists v hv
  exact roundtrip_number v hw hr (rowFacts v _ he).signed x hx

/-! ## non-vacuity -/

example : Gen.memValues ≠ [] := by decide +kernel
example : ∃ v ∈ Gen.memValues, v.r2v = .scaled ∧ v.tmaskSupported = true := by decide +kernel
example : ∃ v ∈ Gen.memValues, v.r2v = .string ∧ v.locs.length = 60 := by decide +kernel
example : ∃ v ∈ Gen.memValues, v.maskSupported = true ∧ v.minValue ≠ none := by decide +kernel
example : ∃ r ∈ Spec.Mem.memoryLayout, r.kind = .unitScaled ∧ r.width = 7 := by decide +kernel
example : Spec.Mem.interpret
    { bank := "", name := "", first := 4, width := 3, access := [], kind := .unitScaled, mask := false,
      tmask := true, min := none, max := some 0xfffd, pinned := false } [0xfd, 0x01, 0x02] =
    .dec 258 (-3) := by decide +kernel
example : Spec.Mem.interpret
    { bank := "", name := "", first := 4, width := 3, access := [], kind := .unitScaled, mask := false,
      tmask := true, min := none, max := some 0xfffd, pinned := false } [0x00, 0xff, 0xfe] =
    .flag .TMASK := by decide +kernel

end DaliVerif.Props.C11
