import DaliVerif.Proofs.FrameOps
/-!
# C05 — `Frame` is a fixed-width unsigned bit vector under all operations

Property theorems only.  `Frame` is the model of `dali/frame.py`
(`Model/Frame.lean`, tied to the code by the correspondence suite `frame`);
`Spec.Bits` is the reference list-of-bits model.
-/
namespace DaliVerif.Props.C05
open DaliVerif Frame Spec Spec.Bits

/-- operand frames of an operation satisfy the invariant -/
def OpInv : Frame.Op → Prop
  | .add (some g) | .eq (some g) | .ne (some g) => Inv g
  | _ => True

/-- Construction: exactly the documented acceptance rule, and the result
satisfies the invariant. -/
theorem new_spec (b d : Int) :
    Frame.new (.int b) (.int d) =
      if 1 ≤ b ∧ 0 ≤ d ∧ d < (2 ^ b.toNat : Int) then .ok ⟨b.toNat, d.toNat⟩
      else .error .ValueError := by
  unfold Frame.new
  simp only [PyVal.asInt?]
  by_cases hb : b < 1
  · have : ¬ (1 ≤ b ∧ 0 ≤ d ∧ d < (2 ^ b.toNat : Int)) := by omega
    simp [hb, this]
  · simp only [hb, if_false]
    have hv := value_checks d b.toNat
    by_cases hd : d < 0
    · have : ¬ (1 ≤ b ∧ 0 ≤ d ∧ d < (2 ^ b.toNat : Int)) := by omega
      simp [hd, this]
    · simp only [hd, if_false]
      by_cases hl : bitLength d > b.toNat
      · have : ¬ (0 ≤ d ∧ d < (2 ^ b.toNat : Int)) := fun h => (hv.mpr h).1 hl
        have : ¬ (1 ≤ b ∧ 0 ≤ d ∧ d < (2 ^ b.toNat : Int)) := fun h => this h.2
        simp [hl, this]
      · have := hv.mp ⟨hl, hd⟩
        have h1 : 1 ≤ b := by omega
        simp [hl, this, h1]

theorem new_inv {b d : PyVal} {f : Frame} (h : Frame.new b d = .ok f) : Inv f := by
  unfold Frame.new at h
  cases hb : b.asInt? with
  | none => simp [hb] at h
  | some bi =>
    simp only [hb] at h
    split at h
    · contradiction
    · rename_i hb1
      split at h
      · contradiction
      · rename_i dv hdv
        split at h
        · contradiction
        · split at h
          · contradiction
          · rename_i hd0 hbl
            injection h with h
            subst h
            have := (value_checks dv bi.toNat).mp ⟨hbl, hd0⟩
            refine ⟨by simp only; omega, ?_⟩
            simp only
            have h2 : ((dv.toNat : Nat) : Int) < ((2 ^ bi.toNat : Nat) : Int) := by
              rw [Int.toNat_of_nonneg this.1]; exact_mod_cast this.2
            exact_mod_cast h2

/-- **One step refines the reference**, with the invariant and the width kept:
results, new contents and exception class all agree; on an exception the
model returns no new frame at all (the frame is unchanged by type). -/
theorem apply_refines (f : Frame) (hf : Inv f) (op : Frame.Op) (hop : OpInv op) :
    absRes (f.apply op) = Bits.apply (abs f) (absOp op) ∧
    ∀ f' o, f.apply op = .ok (f', o) → Inv f' ∧ f'.bits = f.bits := by
  obtain ⟨hb1, hd⟩ := hf
  cases op with
  | getItem k =>
    cases k with
    | idx k =>
      simp only [Frame.apply, Frame.getItem, absOp, Bits.apply, Bits.indexOf, abs_length]
      cases hk : k.asInt? with
      | none => simp [absRes, bind, Except.bind]
      | some i =>
        by_cases hr : 0 ≤ i ∧ i < (f.bits : Int)
        · have h1 : ¬ (i < 0 ∨ i ≥ (f.bits : Int)) := by omega
          have h2 : i.toNat < f.bits := by omega
          simp [hr, h1, absRes, absOut, bind, Except.bind, pure, Except.pure,
            testBit_and_one_shiftLeft, abs, ofNat_getD _ _ _ h2, Frame.Inv, hb1, hd]
        · have h1 : (i < 0 ∨ i ≥ (f.bits : Int)) := by omega
          simp [hr, h1, absRes, bind, Except.bind]
    | slice a b s =>
      simp only [Frame.apply, Frame.getItem, absOp, Bits.apply, abs_length, readSlice_eq]
      cases hs : sliceOf f.bits a b s with
      | error e => simp [absRes, bind, Except.bind]
      | ok p =>
        obtain ⟨hi, lo⟩ := p
        have ⟨h1, h2⟩ := sliceOf_ok hs
        simp only [bind, Except.bind, pure, Except.pure, absRes, absOut]
        refine ⟨?_, ?_⟩
        · congr 2
          simp only [abs, ofNat_drop]
          rw [ofNat_take _ _ _ (by omega), toNat_ofNat, getSliceRaw_eq,
            Nat.shiftRight_eq_div_pow]
        · intro f' o h; injection h with h; injection h with h3 h4; subst h3
          exact ⟨⟨hb1, hd⟩, rfl⟩
  | setItem k v =>
    cases k with
    | idx k =>
      simp only [Frame.apply, Frame.setItem, absOp, Bits.apply, Bits.indexOf, abs_length]
      cases hk : k.asInt? with
      | none => simp [absRes, bind, Except.bind]
      | some i =>
        by_cases hr : 0 ≤ i ∧ i < (f.bits : Int)
        · have h1 : ¬ (i < 0 ∨ i ≥ (f.bits : Int)) := by omega
          have h2 : i.toNat < f.bits := by omega
          simp only [hr, h1, absRes, absOut, bind, Except.bind, pure, Except.pure,
            and_self, if_true, Bool.or_eq_true, decide_eq_true_eq, if_false]
          refine ⟨?_, ?_⟩
          · congr 2
            apply List.ext_getElem
            · simp [abs]
            · intro j hj1 hj2
              simp only [abs, ofNat_getElem, List.getElem_set]
              rw [testBit_setBitRaw _ _ _ _ _ h2 hd]
              by_cases e : i.toNat = j
              · simp [e]
              · have e' : ¬ j = i.toNat := fun h => e h.symm
                simp [e, e']
          · intro f' o h; injection h with h; injection h with h3 h4; subst h3
            exact ⟨⟨hb1, setBitRaw_lt _ _ _ _ h2 hd⟩, rfl⟩
        · have h1 : (i < 0 ∨ i ≥ (f.bits : Int)) := by omega
          simp [hr, h1, absRes, bind, Except.bind]
    | slice a b s =>
      simp only [Frame.apply, Frame.setItem, absOp, Bits.apply, abs_length, readSlice_eq]
      cases hs : sliceOf f.bits a b s with
      | error e => simp [absRes, bind, Except.bind]
      | ok p =>
        obtain ⟨hi, lo⟩ := p
        have ⟨h1, h2⟩ := sliceOf_ok hs
        simp only [bind, Except.bind, Bits.valueOf]
        cases hv : v.asInt? with
        | none => simp [absRes]
        | some x =>
          have hvc := value_checks x (hi + 1 - lo)
          by_cases hr : 0 ≤ x ∧ x < (2 ^ (hi + 1 - lo) : Int)
          · have ⟨c1, c2⟩ := hvc.mpr hr
            have hx : x.toNat < 2 ^ (hi + 1 - lo) := by
              have h2 : ((x.toNat : Nat) : Int) < ((2 ^ (hi + 1 - lo) : Nat) : Int) := by
                rw [Int.toNat_of_nonneg hr.1]; exact_mod_cast hr.2
              exact_mod_cast h2
            simp only [c1, c2, hr, if_false, if_true, and_self, pure, Except.pure, absRes, absOut]
            refine ⟨?_, ?_⟩
            · congr 2
              apply List.ext_getElem
              · simp [abs]
              · intro j hj1 hj2
                simp only [abs, ofNat_getElem, List.getElem_mapIdx]
                rw [testBit_setSliceRaw _ _ _ _ _ _ h1 h2 hd hx]
            · intro f' o h; injection h with h; injection h with h3 h4; subst h3
              exact ⟨⟨hb1, setSliceRaw_lt _ _ _ _ _ h1 h2 hd hx⟩, rfl⟩
          · simp only [hr, if_false]
            by_cases c1 : bitLength x > hi + 1 - lo
            · simp [c1, absRes]
            · have c2 : x < 0 := by
                apply Decidable.byContradiction; intro c2; exact hr (hvc.mp ⟨c1, c2⟩)
              simp [c1, c2, absRes]
  | contains v =>
    refine ⟨?_, ?_⟩
    · cases v with
      | bool b =>
        cases b
        · simp only [Frame.apply, absOp, Bits.apply, absRes, absOut, pure, Except.pure,
            Frame.contains, abs, mask_eq]
          rw [contains_false_ofNat _ _ hd]
        · simp only [Frame.apply, absOp, Bits.apply, absRes, absOut, pure, Except.pure,
            Frame.contains, abs]
          rw [contains_true_ofNat _ _ hd]
      | _ => simp [Frame.apply, absOp, Bits.apply, absRes, absOut, pure, Except.pure,
            Frame.contains]
    · intro f' o h
      simp only [Frame.apply, pure, Except.pure] at h
      injection h with h; injection h with h3 h4; subst h3
      exact ⟨⟨hb1, hd⟩, rfl⟩
  | add g =>
    cases g with
    | none => simp [Frame.apply, Frame.add, absOp, Bits.apply, absRes, bind, Except.bind]
    | some g =>
      obtain ⟨gb1, gd⟩ : Inv g := hop
      have hfit : (f.data <<< g.bits ||| g.data) < 2 ^ (f.bits + g.bits) := by
        apply lt_two_pow_of_testBit
        intro j hj
        simp only [Nat.testBit_or, Nat.testBit_shiftLeft]
        have : j ≥ g.bits := by omega
        simp [this, testBit_eq_false_of_lt gd this, testBit_eq_false_of_lt hd (by omega : f.bits ≤ j - g.bits)]
      have hnew : Frame.new (.int ((f.bits + g.bits : Nat) : Int))
          (.int ((f.data <<< g.bits ||| g.data : Nat) : Int))
          = .ok ⟨f.bits + g.bits, f.data <<< g.bits ||| g.data⟩ := by
        rw [new_spec]
        have : (1 : Int) ≤ ((f.bits + g.bits : Nat) : Int) := by omega
        have h2 : ((f.data <<< g.bits ||| g.data : Nat) : Int)
            < (2 ^ ((f.bits + g.bits : Nat) : Int).toNat : Int) := by
          rw [Int.toNat_natCast]; exact_mod_cast hfit
        rw [if_pos ⟨this, Int.natCast_nonneg _, h2⟩]
        simp; omega
      refine ⟨?_, ?_⟩
      · simp only [Frame.apply, Frame.add, absOp, Option.map, Bits.apply, bind, Except.bind]
        have e : (.int (↑f.bits + ↑g.bits) : PyVal) = .int ((f.bits + g.bits : Nat) : Int) := by
          simp
        rw [e, hnew]
        simp only [pure, Except.pure, absRes, absOut, abs]
        rw [ofNat_append _ _ _ _ gd]
      · intro f' o h
        simp only [Frame.apply, bind, Except.bind] at h
        split at h
        · contradiction
        · simp only [pure, Except.pure] at h
          injection h with h; injection h with h3 h4; subst h3
          exact ⟨⟨hb1, hd⟩, rfl⟩
  | eq g =>
    refine ⟨?_, ?_⟩
    · cases g with
      | none => simp [Frame.apply, Frame.eq, absOp, Bits.apply, absRes, absOut, pure, Except.pure]
      | some g =>
        have hg : Inv g := hop
        simp only [Frame.apply, Frame.eq, absOp, Option.map, Bits.apply, absRes, absOut, pure,
          Except.pure]
        congr 3
        have := abs_inj ⟨hb1, hd⟩ hg
        cases f; cases g
        simp only [Frame.mk.injEq] at this
        simp only [this]
        grind
    · intro f' o h
      simp only [Frame.apply, pure, Except.pure] at h
      injection h with h; injection h with h3 h4; subst h3
      exact ⟨⟨hb1, hd⟩, rfl⟩
  | ne g =>
    refine ⟨?_, ?_⟩
    · cases g with
      | none => simp [Frame.apply, Frame.ne, absOp, Bits.apply, absRes, absOut, pure, Except.pure]
      | some g =>
        have hg : Inv g := hop
        simp only [Frame.apply, Frame.ne, absOp, Option.map, Bits.apply, absRes, absOut, pure,
          Except.pure]
        congr 3
        have := abs_inj ⟨hb1, hd⟩ hg
        cases f; cases g
        simp only [Frame.mk.injEq] at this
        simp only [ne_eq, this]
        simp only [bne_iff_ne, ne_eq, Bool.or_eq_true, decide_not, Bool.decide_and]
        grind
    · intro f' o h
      simp only [Frame.apply, pure, Except.pure] at h
      injection h with h; injection h with h3 h4; subst h3
      exact ⟨⟨hb1, hd⟩, rfl⟩

/-- **Every history refines the reference**: after any sequence of
operations (failed ones included) the contents equal the reference list of
bits, every result and every exception class is the reference's, the width is
the initial width and the value is still below `2 ^ width`. -/
theorem history_refines (ops : List Frame.Op) (f : Frame) (hf : Frame.Inv f)
    (hops : ∀ op ∈ ops, OpInv op) :
    abs (f.run ops).1 = (Bits.run (abs f) (ops.map absOp)).1 ∧
    (f.run ops).2.map (fun r => r.map absOut) = (Bits.run (abs f) (ops.map absOp)).2 ∧
    Frame.Inv (f.run ops).1 ∧ (f.run ops).1.bits = f.bits := by
  induction ops generalizing f with
  | nil => simp [Frame.run, Bits.run, hf]
  | cons op ops ih =>
    have ⟨h1, h2⟩ := apply_refines f hf op (hops op (by simp))
    have hops' : ∀ op ∈ ops, OpInv op := fun o ho => hops o (by simp [ho])
    simp only [Frame.run, Bits.run, List.map_cons]
    cases hap : f.apply op with
    | error e =>
      rw [hap] at h1
      simp only [absRes] at h1
      rw [← h1]
      have := ih f hf hops'
      simp only [List.map_cons]
      refine ⟨this.1, ?_, this.2.2⟩
      rw [this.2.1]; rfl
    | ok p =>
      obtain ⟨f', o⟩ := p
      rw [hap] at h1
      simp only [absRes] at h1
      rw [← h1]
      have ⟨hi', hb'⟩ := h2 f' o hap
      have := ih f' hi' hops'
      simp only [List.map_cons]
      refine ⟨this.1, ?_, this.2.2.1, by rw [this.2.2.2, hb']⟩
      rw [this.2.1]; rfl

/-- The value can never leave `0 ≤ value < 2 ^ width`. -/
theorem value_in_range (ops : List Frame.Op) (f : Frame) (hf : Frame.Inv f)
    (hops : ∀ op ∈ ops, OpInv op) :
    (f.run ops).1.data < 2 ^ f.bits := by
  have := history_refines ops f hf hops
  rw [← this.2.2.2]; exact this.2.2.1.2

/-- Equality means same width and same bits. -/
theorem eq_iff (f g : Frame) (hf : Frame.Inv f) (hg : Frame.Inv g) :
    f.eq (some g) = true ↔ f.bits = g.bits ∧ abs f = abs g := by
  rw [abs_inj hf hg]
  cases f; cases g
  simp [Frame.eq]

theorem ne_eq_not_eq (f : Frame) (g : Option Frame) : f.ne g = !f.eq g := by
  cases g <;> simp [Frame.ne, Frame.eq]
  grind

/-- The packed view: `⌈bits/8⌉` bytes, each `< 256`, whose big-endian value is
the frame's number — and `pack` never raises on a reachable frame. -/
theorem pack_spec (f : Frame) (hf : Frame.Inv f) :
    ∃ bs, f.pack = .ok bs ∧ bs.length = (f.bits + 7) / 8 ∧ (∀ b ∈ bs, b < 256) ∧
      ofBytesBE bs = f.data := by
  have hn : f.bits / 8 + (if (f.bits % 8 != 0) = true then 1 else 0) = (f.bits + 7) / 8 := by
    by_cases h : f.bits % 8 = 0
    · simp [h]; omega
    · simp [h]; omega
  have hfit : f.data < 256 ^ ((f.bits + 7) / 8) := by
    have : (256 : Nat) = 2 ^ 8 := by decide
    rw [this, ← Nat.pow_mul]
    exact Nat.lt_of_lt_of_le hf.2 (Nat.pow_le_pow_right (by decide) (by omega))
  refine ⟨toBytesBE f.data ((f.bits + 7) / 8), ?_, toBytesBE_length _ _, toBytesBE_lt _ _, ?_⟩
  · simp only [Frame.pack, Frame.packLenNat, hn, hfit, if_true]
  · rw [ofBytesBE_toBytesBE, Nat.mod_eq_of_lt hfit]

/-- The fixed-length view: right-aligned, zero-padded, `OverflowError` exactly
when the number does not fit `l` bytes, `ValueError` for a negative length,
`TypeError` for a non-integer one. -/
theorem packLen_spec (f : Frame) (l : PyVal) :
    f.packLen l =
      match l.asInt? with
      | none => .error .TypeError
      | some n =>
        if n < 0 then .error .ValueError
        else if f.data < 256 ^ n.toNat then .ok (toBytesBE f.data n.toNat)
        else .error .OverflowError := by
  unfold Frame.packLen Frame.packLenNat; rfl

theorem packLen_roundtrip (f : Frame) (n : Nat) (h : f.data < 256 ^ n) :
    ∃ bs, f.packLen (.int n) = .ok bs ∧ bs.length = n ∧ ofBytesBE bs = f.data := by
  refine ⟨toBytesBE f.data n, ?_, toBytesBE_length _ _, ?_⟩
  · simp [Frame.packLen, Frame.packLenNat, PyVal.asInt?, h]
  · rw [ofBytesBE_toBytesBE, Nat.mod_eq_of_lt h]

/-- **Text rendering never fails and shows exactly the width and the packed bytes** — `str(frame)` is
`ClassName(width,[b0, b1, …])` with the most significant byte first, for every reachable frame. -/
theorem render_spec (cls : String) (f : Frame) (hf : Frame.Inv f) :
    ∃ bs, f.pack = .ok bs ∧ ofBytesBE bs = f.data ∧ bs.length = (f.bits + 7) / 8 ∧
      Frame.render cls f = .ok s!"{cls}({f.bits},{Frame.pyList bs})" := by
  obtain ⟨bs, h1, h2, _, h4⟩ := pack_spec f hf
  refine ⟨bs, h1, h4, h2, ?_⟩
  simp [Frame.render, Frame.asByteSequence, h1, bind, Except.bind, pure, Except.pure]

/-- Rebuilding a frame from its packed bytes gives an equal frame. -/
theorem pack_reconstructs (f : Frame) (hf : Frame.Inv f) :
    ∃ bs, f.pack = .ok bs ∧
      Frame.new (.int f.bits) (.ints (bs.map Int.ofNat)) = .ok f := by
  obtain ⟨bs, h1, _, h3, h4⟩ := pack_spec f hf
  refine ⟨bs, h1, ?_⟩
  have hall : (bs.map Int.ofNat).all (fun x => decide (0 ≤ x) && decide (x < 256)) = true := by
    simp only [List.all_map, List.all_eq_true]
    intro b hb
    have := h3 b hb
    simp only [Function.comp, Int.ofNat_eq_natCast, Bool.and_eq_true, decide_eq_true_eq]
    omega
  have hmap : (bs.map Int.ofNat).map Int.toNat = bs := by
    rw [List.map_map]
    conv => rhs; rw [← List.map_id bs]
    apply List.map_congr_left
    intro a _; simp
  have hb : ¬ ((f.bits : Int) < 1) := by have := hf.1; omega
  have hbl : ¬ (bitLength ((f.data : Nat) : Int) > (f.bits : Int).toNat) := by
    have := (bitLength_le_iff f.data f.bits).mpr hf.2
    simp; omega
  simp only [Int.toNat_natCast] at hbl
  unfold Frame.new
  simp only [PyVal.asInt?, hb, if_false, hall, if_true, hmap, h4, Int.ofNat_eq_natCast]
  have hneg : ¬ ((f.data : Int) < 0) := by omega
  simp only [hneg, if_false, hbl, Int.toNat_natCast]

/-! ### the hypotheses are satisfiable: concrete non-trivial instances -/

example : Frame.Inv ⟨16, 0xA5C3⟩ := by unfold Frame.Inv; decide
example : (⟨16, 0xA5C3⟩ : Frame).run
    [.setItem (.slice (.int 12) (.int 9) .none) (.int 5), .setItem (.idx (.int 0)) (.str ""),
     .setItem (.slice (.int 3) (.int 20) .none) (.int 1), .getItem (.slice (.int 8) (.int 15) .none)]
    = (⟨16, 0xABC2⟩, [.ok .unit, .ok .unit, .error .IndexError, .ok (.num 0xAB)]) := by decide
example : (⟨12, 0xABC⟩ : Frame).pack = .ok [0x0A, 0xBC] := by decide

end DaliVerif.Props.C05
