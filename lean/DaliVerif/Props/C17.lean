import DaliVerif.Props.C15
/-!
# C17 — gateway loss or silence fails sends promptly and recovery is clean

Model: `Model/Async.lean` (tasks, locks, outstanding table, mailbox) with the
connection machine `Model/Conn.lean`; faults are labels of the schedule:
`env lose` (EOF / read error / failing write: `disconnect(reconnect=True)` with
`_shutdown_device`), `raise t e` (CommunicationError, TimeoutError, cancellation
at the action the task is blocked in), `env timer/back/gone/connect`.  The
theorems hold for every schedule, i.e. every placement of every fault.

Connection clauses (`status_language`, `never_silent`, `failed_after_limit`,
`attempts_reset_on_connect`, `recovery`): invariant `Conn.CInv` of
`Proofs/ConnLang.lean`, lifted to schedules by `Proofs/ConnLangAsync.lean`.
Completion of sends after `recovery` is `C15.progress` / `C15.nobody_hangs`
under the explicit environment hypotheses `s.conn.up` and `GatewayAnswers s`.
Not in the model: the retry *interval* (no clock).
-/
namespace DaliVerif.Props.C17
open DaliVerif.Async DaliVerif.Conn

/-- `no_leak`: in every reachable state in which all callers have finished — whatever mixture of
normal returns, CommunicationError, time-outs and cancellations at any await got them there, and
however many losses and reconnections happened — the transaction lock is free, the inner
serialiser (Tridonic semaphore / hasseb command lock / serial tx lock) is back at capacity and
`_outstanding` is empty. -/
theorem no_leak {s0 s : St} {ls : List Label} (h0 : s0.initial) (hl : ∀ l ∈ ls, l.ok)
    (h : run? s0 ls = some s) (hfin : ∀ (t : Tid) (tk : Async.Task), s.tasks[t]? = some tk → tk.prog = []) :
    s.lock = none ∧ s.inner = [] ∧ s.slots = [] :=
  C15.lock_free_at_end h0 hl h hfin

/-- `no_leak` for the four drivers: every schedule of `send` / `run_sequence` callers. -/
theorem no_leak_drivers (d : Driver) {s0 s : St} {ls : List Label} (h0 : s0.initial)
    (hd : C15.DriverSchedule d ls) (h : run? s0 ls = some s)
    (hfin : ∀ (t : Tid) (tk : Async.Task), s.tasks[t]? = some tk → tk.prog = []) :
    s.lock = none ∧ s.inner = [] ∧ s.slots = [] :=
  no_leak h0 (C15.driverSchedule_ok hd) h hfin

/-- `wrap_safe`: after any history, whenever a task is about to register a sequence number the
table of outstanding commands is empty — so the number can never be occupied, whatever the
counter's value, for 300 or any number of further sends (the `assert` of `_send_raw` cannot
fire). -/
theorem wrap_safe {s0 s : St} {ls : List Label} (h0 : s0.initial) (hl : ∀ l ∈ ls, l.ok)
    (h : run? s0 ls = some s) {t : Tid} {tk : Async.Task} {st : Step} {rest : List Step}
    (ht : s.tasks[t]? = some tk) (hp : tk.prog = st :: rest) (ha : st.act = .slot) :
    s.slots = [] ∧ (step? s (.act t)).isSome = true := by
  have hI := reachable_inv h0 hl h
  have hT := hI.tasks t tk ht
  have hw := hT.wf
  rw [hp] at hw
  obtain ⟨_, r', heff, _⟩ := wf_cons hw
  rw [ha] at heff
  obtain ⟨hit, hns⟩ := C15.eff_slot_pre heff
  have hlt : (res s t).lock = true := by
    have hok := hT.ok
    simp only [Res.ok, hit, Bool.not_true, Bool.false_or, Bool.and_eq_true] at hok
    exact hok.2
  have hlock := res_lock.mp hlt
  have hempty : s.slots = [] := by
    cases hsl : s.slots with
    | nil => rfl
    | cons x l =>
      have hm : x.2 ∈ s.owners := by simp [St.owners, hsl]
      have hx := hI.slotB _ hm
      have hgx : s.tasks[x.2]? = some s.tasks[x.2] := List.getElem?_eq_getElem hx
      have hok := (hI.tasks x.2 _ hgx).ok
      have hxs : (res s x.2).slot = true := res_slot.mpr hm
      have hxl : (res s x.2).lock = true := by
        cases hi : (res s x.2).inner <;> cases hlk2 : (res s x.2).lock <;> simp_all [Res.ok]
      have : x.2 = t := by
        have := res_lock.mp hxl
        rw [hlock] at this; cases this; rfl
      rw [this] at hxs
      rw [hxs] at hns; cases hns
  exact ⟨hempty, by simp [step?, actStep, ht, hp, ha, hempty]⟩

/-- `inflight_fail` (1): a loss hands every outstanding command a "fail" and empties the table. -/
theorem inflight_fail {s s' : St} (h : step? s (.env .lose) = some s') :
    s'.slots = [] ∧ (∀ q u, (q, u) ∈ s.slots → (q, Msg.fail) ∈ s'.mail) ∧ (0, Msg.fail) ∈ s'.mail := by
  simp only [step?] at h
  cases hc : Conn.step s.conn .lose with
  | none => simp [hc] at h
  | some c' =>
    simp only [hc, if_true] at h
    cases h
    refine ⟨rfl, ?_, ?_⟩
    · intro q u hqu
      simp only [shutdown, List.mem_append, List.mem_map]
      left; right
      exact ⟨(q, u), hqu, rfl⟩
    · simp [shutdown]

/-- `inflight_fail` (2): a task waiting for a report whose next message is "fail" cannot continue
normally — its only step is to raise; with exceptions on (`retry = none`) it leaves with that
error after its clean-up, with exceptions off it re-enters the send loop (`raiseStep`). -/
theorem inflight_fail_must_raise {s : St} {t : Tid} {tk : Async.Task} {m : Msg} {timed : Bool}
    {rest : List Step} {st : Step} (ht : s.tasks[t]? = some tk) (hp : tk.prog = st :: rest)
    (ha : st.act = .await m timed) (hm : m ≠ .fail) {mail' : List (Nat × Msg)}
    (hfail : takeMail tk.tag (awaitSel tk.tag m) s.mail = some (.fail, mail')) :
    step? s (.act t) = none := by
  simp only [step?, actStep, ht, hp, ha, hfail]
  rw [if_neg (fun e : Msg.fail = m => hm e.symm)]

/-- `inflight_fail` (3), the transparent retry (`retry_resends_whole_unit`, strengthening after seeded round 2):
in every reachable state of every schedule of `send` / `run_sequence` callers of driver `d`, a
CommunicationError that hits a caller sending with exceptions off — at any step of its unit, also after the
EnableDeviceType prefix has completed and while the command itself is in flight — leaves the caller inside the
call with the clean-up back to the loop head (no frame), then the WHOLE unit again (`C15.unitFrames`:
EnableDeviceType first when the command needs a device type, then the command), then the release of the lock.
Prefix and command are never retried separately. -/
theorem retry_resends_whole_unit (d : Driver) {s0 s s' : St} {ls : List Label} (h0 : s0.initial)
    (hd : C15.DriverSchedule d ls) (h : run? s0 ls = some s) {t : Tid} {tk : Async.Task}
    (ht : s.tasks[t]? = some tk) (hretry : tk.retry.isSome = true)
    (hstep : step? s (.raise t .comm) = some s') :
    ∃ (c : Cmd) (st : Step) (rest cleanup : List Step) (tk' : Async.Task),
      tk.prog = st :: rest ∧ st.act.canComm = true ∧
      s'.tasks[t]? = some tk' ∧ tk'.exc = tk.exc ∧ tk'.retry = tk.retry ∧ s'.lock = s.lock ∧ s'.log = s.log ∧
      tk'.prog = cleanup ++ withEdt d c [Act.rel] ++ [{ act := .rel }] ∧
      (∀ x ∈ cleanup, x.act.isCleanup = true) ∧ C15.writesOf cleanup = [] ∧
      (d.carries c.frame = true → C15.writesOf (withEdt d c [Act.rel]) = C15.unitFrames d c) ∧
      (c.frame.dt ≠ 0 → (C15.unitFrames d c).head? = some (edtFrame c.frame.dt)) ∧
      edtOK none (withEdt d c [Act.rel]) = true :=
  C15.retry_resends_whole_unit d h0 hd h ht hretry hstep

/-- `serial_timeout`: a confirmation time-out (or any exception or cancellation) in a serial send
leaves the call with everything released; the wait for the backward frame can always end
(`poll` is enabled with or without an answer: "no answer" after `timeout_rx`). -/
theorem serial_timeout {s0 s s' : St} {ls : List Label} (h0 : s0.initial) (hl : ∀ l ∈ ls, l.ok)
    (h : run? s0 ls = some s) {t : Tid} {tk : Async.Task} (ht : s.tasks[t]? = some tk)
    (hnoretry : tk.retry = none) (hstep : step? s (.raise t .timeout) = some s') :
    ∃ tk', s'.tasks[t]? = some tk' ∧ tk'.exc = some .timeout ∧
      cleanupOK (res s' t) (tk'.prog.map (·.act)) = true :=
  C15.release_on_raise_or_cancel h0 hl h ht hnoretry hstep

theorem serial_answer_wait_ends {s : St} {t : Tid} {tk : Async.Task} {st : Step} {rest : List Step}
    (ht : s.tasks[t]? = some tk) (hp : tk.prog = st :: rest) (ha : st.act = .poll) :
    (step? s (.act t)).isSome = true := by
  simp only [step?, actStep, ht, hp, ha]
  split <;> rfl

/-! ## the connection machine: callbacks, reconnect limit, recovery

All of the following hold for every schedule `ls` of the interleaving model from a driver object
on which `connect()` has not been called yet (`s0.conn.fresh`): any placement of losses (`env
lose`, at any point including during the handshake and between retries), of the reconnect timer
with the device present or absent (`env gone/back`), of explicit `connect()` calls, any reconnect
limit (`none`, `some 0`, `some n`), any interleaving with callers, exceptions and cancellations.
The invariant is `Conn.CInv` (`Proofs/ConnLang.lean`), carried through every step of
`Model/Conn.lean` and through the projection `Async.run_conn` of schedules to connection events. -/

/-- `status_language`: the callbacks delivered so far are a word the automaton `Conn.lstep` of
`connected · (disconnected · (connected | failed))*` never gets stuck on (`idle` = before the
first `connected` and again after `failed`, from where only an explicit `connect()` continues);
moreover the automaton is in `up` exactly while the device file is open, and while it is in
`down` — the last callback was `disconnected` — a retry is pending, so `connected` or `failed`
will follow: the driver never goes silent after `disconnected`. -/
theorem status_language {s0 s : St} {ls : List Label} (hc : s0.conn.fresh) (h : run? s0 ls = some s) :
    ∃ q, lrun .idle s.conn.cbs = some q ∧ (q = .up ↔ s.conn.fd = true) ∧
      (q = .down → s.conn.pending = true) :=
  (reachable_CInv hc h).lang

/-- `status_language` as the executable check the trace acceptor could run -/
theorem status_language_ok {s0 s : St} {ls : List Label} (hc : s0.conn.fresh) (h : run? s0 ls = some s) :
    s.conn.langOK = true := by
  obtain ⟨q, hq, _⟩ := status_language hc h
  simp [Conn.langOK, hq]

/-- `status_language` for the connection machine on its own: every event sequence -/
theorem status_language_conn {c0 c : Conn} {es : List Conn.Ev} (hc : c0.fresh)
    (h : Conn.run Conn.step c0 es = some c) : c.langOK = true := by
  obtain ⟨q, hq, _⟩ := (run_CInv (fresh_CInv hc) h).lang
  simp [Conn.langOK, hq]

/-- `status_language`, the literal form `connected · (disconnected · (connected | failed))*`
with nothing after `failed`: when the application calls `connect()` once, with the device there,
and never again, the callbacks are accepted by the strict automaton `Conn.sstep` (no `idle`
state: `failed` is final). -/
theorem status_language_strict {c0 c : Conn} {es : List Conn.Ev} (hc : c0.fresh) (hpr : c0.present = true)
    (hes : ∀ e ∈ es, e ≠ .connect) (h : Conn.run Conn.step c0 (.connect :: es) = some c) :
    (srun .start c.cbs).isSome = true :=
  strict_language hc hpr hes h

/-- after `disconnected` the driver keeps trying: if the last callback is `disconnected`, the
device file is closed and a retry is pending -/
theorem retry_pending_while_disconnected {s0 s : St} {ls : List Label} (hc : s0.conn.fresh)
    (h : run? s0 ls = some s) (hlast : s.conn.cbs.getLast? = some .disconnected) :
    s.conn.fd = false ∧ s.conn.pending = true := by
  obtain ⟨q, hq, hup, hdown⟩ := status_language hc h
  have hqd : q = .down := lrun_last_disconnected hq hlast
  refine ⟨?_, hdown hqd⟩
  cases hf : s.conn.fd with
  | false => rfl
  | true => have := hup.mpr hf; rw [hqd] at this; cases this

/-- the driver never gives up silently (the general form of the F9 repair): in every reachable
state with the device closed and no retry pending, either nothing was ever reported (`connect()`
not called yet) or the last callback is `failed`. -/
theorem never_silent {s0 s : St} {ls : List Label} (hc : s0.conn.fresh) (h : run? s0 ls = some s)
    (hfd : s.conn.fd = false) (hp : s.conn.pending = false) :
    s.conn.cbs = [] ∨ s.conn.cbs.getLast? = some .failed :=
  (reachable_CInv hc h).never_silent hfd hp

/-- `failed_after_limit`: every `failed` callback was delivered after exactly `reconnect_limit`
failed timer-driven attempts of that outage (one ghost entry per `failed` callback, each equal to
the limit); while a retry is pending fewer than `limit` attempts of this outage have failed (the
driver never tries more often than the limit); with `reconnect_limit=None` there is never a
`failed`; the limit itself never changes. -/
theorem failed_after_limit {s0 s : St} {ls : List Label} (hc : s0.conn.fresh) (h : run? s0 ls = some s) :
    s.conn.limit = s0.conn.limit ∧
    (∀ k, k ∈ s.conn.failedAfter → s.conn.limit = some k) ∧
    nFailed s.conn.cbs = s.conn.failedAfter.length ∧
    (s.conn.pending = true → ∀ l, s.conn.limit = some l → s.conn.attempts < l) ∧
    (s.conn.limit = none → nFailed s.conn.cbs = 0) := by
  have hI := reachable_CInv hc h
  refine ⟨(run_config (run_conn h)).1, hI.failed, hI.nfail, fun hp => (hI.pend hp).2, ?_⟩
  intro hn
  rw [hI.nfail]
  cases hf : s.conn.failedAfter with
  | nil => rfl
  | cons k l =>
    have := hI.failed k (by rw [hf]; exact List.mem_cons_self)
    rw [hn] at this; cases this

/-- `failed_after_limit`, step form — exactly when: a retry with the device still absent counts
the attempt; it reports `failed` (and stops retrying, `_reconnect_count` back to 0) if and only if
the attempts of this outage have now reached the limit, otherwise it reports nothing and arms the
next retry. -/
theorem retry_until_limit {s0 s : St} {ls : List Label} (hc : s0.conn.fresh) (h : run? s0 ls = some s)
    (hp : s.conn.pending = true) (hpr : s.conn.present = false) :
    ∃ s', step? s (.env .timer) = some s' ∧ s'.conn.fd = false ∧ s'.conn.attempts = s.conn.attempts + 1 ∧
      ((s.conn.limit = some (s.conn.attempts + 1) ∧ s'.conn.cbs = s.conn.cbs ++ [.failed] ∧
          s'.conn.pending = false ∧ s'.conn.count = 0) ∨
       (s.conn.limit ≠ some (s.conn.attempts + 1) ∧ s'.conn.cbs = s.conn.cbs ∧ s'.conn.pending = true ∧
          s'.conn.count = s.conn.attempts + 2)) := by
  obtain ⟨c', hst, hfd, hat, hcase⟩ := timer_absent (reachable_CInv hc h) hp hpr
  refine ⟨{ s with conn := c' }, by simp [step?, hst], hfd, hat, ?_⟩
  rcases hcase with ⟨h1, h2, h3, h4, _⟩ | ⟨h1, h2, h3, h4, _⟩
  · exact Or.inl ⟨h1, h2, h3, h4⟩
  · exact Or.inr ⟨h1, h2, h3, h4⟩

/-- `attempts_reset_on_connect` (1): in every reachable state with the device file open,
`_reconnect_count` is 0 and no retry is pending — every path that opens the device (first
`connect()`, a retry, an explicit `connect()` after `failed`) resets the counter. -/
theorem attempts_reset_on_connect {s0 s : St} {ls : List Label} (hc : s0.conn.fresh) (h : run? s0 ls = some s)
    (hfd : s.conn.fd = true) : s.conn.count = 0 ∧ s.conn.pending = false := by
  have hI := reachable_CInv hc h
  exact ⟨hI.idle (hI.fdp hfd), hI.fdp hfd⟩

/-- `attempts_reset_on_connect` (2), step form, no invariant needed: whichever event opens the
device reports `connected`, sets `_reconnect_count = 0` and restarts the handshake. -/
theorem connect_resets_counter {s s' : St} {e : Conn.Ev} (h : step? s (.env e) = some s')
    (h0 : s.conn.fd = false) (h1 : s'.conn.fd = true) :
    s'.conn.count = 0 ∧ s'.conn.cbs = s.conn.cbs ++ [.connected] ∧ s'.conn.hsLeft = s'.conn.hsSteps ∧
      s'.conn.pending = false :=
  open_resets (step_env_conn h) h0 h1

/-- `attempts_reset_on_connect` (3): the limit is a budget per outage, not per lifetime.  Every
loss starts the outage's attempt counter at 0 (and arms the first retry with `_reconnect_count =
1`, or reports `failed` at once for limit 0), and while a retry is pending `_reconnect_count` is
exactly one more than the failed attempts of THIS outage. -/
theorem limit_is_per_outage {s0 s : St} {ls : List Label} (hc : s0.conn.fresh) (h : run? s0 ls = some s) :
    (s.conn.pending = true → s.conn.count = s.conn.attempts + 1) ∧
    (∀ s', step? s (.env .lose) = some s' →
      s'.conn.fd = false ∧ s'.conn.attempts = 0 ∧
      ((s.conn.limit = some 0 ∧ s'.conn.cbs = s.conn.cbs ++ [.disconnected, .failed] ∧
          s'.conn.pending = false ∧ s'.conn.count = 0) ∨
       (s.conn.limit ≠ some 0 ∧ s'.conn.cbs = s.conn.cbs ++ [.disconnected] ∧
          s'.conn.pending = true ∧ s'.conn.count = 1))) := by
  have hI := reachable_CInv hc h
  exact ⟨fun hp => (hI.pend hp).1, fun s' hs => lose_starts_outage hI (step_env_conn hs)⟩

/-- one step of `recovery` on the connection machine alone: with a retry pending and the device
back, the timer re-opens it, reports `connected` and restarts the handshake -/
theorem reconnect_when_back (c : Conn) (hp : c.pending = true) (hfd : c.fd = false) (hpr : c.present = true) :
    ∃ c', Conn.step c .timer = some c' ∧ c'.fd = true ∧ c'.hsLeft = c.hsSteps ∧
      c'.cbs = c.cbs ++ [.connected] ∧ c'.count = 0 ∧ c'.pending = false := by
  rw [step_timer hp, openWith_present (c := { c with pending := false }) _ _ hfd hpr]
  exact ⟨_, rfl, rfl, rfl, rfl, rfl, rfl⟩

theorem handshake_completes (c : Conn) (hfd : c.fd = true) (n : Nat) (hn : c.hsLeft = n) :
    ∃ c', Conn.run Conn.step c (List.replicate n .hs) = some c' ∧ c'.up = true ∧ c'.cbs = c.cbs := by
  obtain ⟨c', h1, h2, h3, _⟩ := hs_run hfd n hn
  exact ⟨c', h1, h2, h3⟩

/-- `recovery`: in any reachable state whose last callback is `disconnected` (whatever happened
before: losses during the handshake, failed retries, callers queued or failed), when the device
returns (`env back`), the next retry (`env timer`) and the gateway's `hsSteps` handshake reports
(`env hs`; 2 for Tridonic, 0 for hasseb) are all enabled, and lead to a state in which
`connected` is set again, `connected` has been reported exactly once more, `_reconnect_count`
is 0, nothing of the callers' state (programs, locks, table, mailbox) was touched — and every
caller queued in `await self.connected.wait()` can now proceed.  From there `C15.progress` /
`C15.nobody_hangs` apply (hypotheses: `connected` set, `GatewayAnswers`): queued and new sends
run to completion.  The environment assumptions are exactly the three labels of the schedule:
the device returns, the timer fires, the gateway answers the handshake. -/
theorem recovery {s0 s : St} {ls : List Label} (hc : s0.conn.fresh) (h : run? s0 ls = some s)
    (hlast : s.conn.cbs.getLast? = some .disconnected) :
    ∃ s', run? s (.env .back :: .env .timer :: List.replicate s.conn.hsSteps (.env .hs)) = some s' ∧
      s'.conn.up = true ∧ s'.conn.cbs = s.conn.cbs ++ [.connected] ∧ s'.conn.count = 0 ∧
      s'.conn.pending = false ∧
      s'.tasks = s.tasks ∧ s'.lock = s.lock ∧ s'.inner = s.inner ∧ s'.slots = s.slots ∧ s'.mail = s.mail ∧
      (∀ t tk st rest, s'.tasks[t]? = some tk → tk.prog = st :: rest → st.act = .connWait →
        (step? s' (.act t)).isSome = true) := by
  obtain ⟨hfd, hp⟩ := retry_pending_while_disconnected hc h hlast
  have hI := reachable_CInv hc h
  -- back
  have hb : Conn.step s.conn .back = some { s.conn with present := true } := rfl
  have hIb : CInv { s.conn with present := true } := step_CInv hI hb
  -- timer
  obtain ⟨c1, ht, hfd1, hhs1, hst1, hcb1, hcnt1, hp1⟩ :=
    timer_present (c := { s.conn with present := true }) hIb hp rfl
  -- handshake
  obtain ⟨c2, hr2, hup2, hcb2, hcnt2, hp2, _⟩ := hs_run hfd1 s.conn.hsSteps hhs1
  have hsrun : ∀ (n : Nat) (x : St) (c : Conn), Conn.run Conn.step x.conn (List.replicate n .hs) = some c →
      run? x (List.replicate n (.env .hs)) = some { x with conn := c } := by
    intro n
    induction n with
    | zero => intro x c hx; simp only [List.replicate_zero, Conn.run, Option.some.injEq] at hx; subst hx; rfl
    | succ k ih =>
      intro x c hx
      simp only [List.replicate_succ, Conn.run] at hx
      cases hs1 : Conn.step x.conn .hs with
      | none => simp [hs1] at hx
      | some c' =>
        simp only [hs1] at hx
        simp only [List.replicate_succ, run?, step?, hs1]
        exact ih { x with conn := c' } c hx
  refine ⟨{ s with conn := c2 }, ?_, hup2, ?_, ?_, ?_, rfl, rfl, rfl, rfl, rfl, ?_⟩
  · have e1 : step? s (.env .back) = some { s with conn := { s.conn with present := true } } := by
      simp [step?, hb]
    have e2 : step? { s with conn := { s.conn with present := true } } (.env .timer) =
        some { s with conn := c1 } := by
      simp [step?, ht]
    simp only [run?, e1, e2]
    exact hsrun _ { s with conn := c1 } c2 hr2
  · rw [hcb2, hcb1]
  · rw [hcnt2, hcnt1]
  · rw [hp2, hp1]
  · intro t tk st rest htk hprog hact
    have htk' : s.tasks[t]? = some tk := htk
    simp [step?, actStep, htk', hprog, hact, hup2]

/-! ## the unchanged tree: witnesses (negations of the theorems above on the old programs) -/

def q0 : Cmd := ⟨⟨16, 0x05A0, false, 0⟩, true⟩

/-- F8: on the unchanged tree a Tridonic `send` cancelled while it waits for the gateway ends with
its `_outstanding` entry still registered although every caller has finished. -/
theorem f8_witness_old_code_leaks :
    let s0 : St := { cap := 2, conn := { limit := none, hsSteps := 2, fd := true } }
    (run? s0 [.spawn (mkTaskOldTridonicSend q0), .act 0, .act 0, .act 0, .act 0, .act 0,
              .raise 0 .cancelled, .act 0, .act 0]).map
      (fun s => (s.tasks.all Task.finished, s.lock, s.inner, s.slots.length)) = some (true, none, [], 1) := by
  decide

/-- the same schedule on the repaired program leaves nothing behind -/
theorem f8_fixed_code_clean :
    let s0 : St := { cap := 2, conn := { limit := none, hsSteps := 2, fd := true } }
    (run? s0 [.spawn (mkTask .tridonic (.send q0 true)), .act 0, .act 0, .act 0, .act 0, .act 0,
              .raise 0 .cancelled, .act 0, .act 0, .act 0]).map
      (fun s => (s.tasks.all Task.finished, s.lock, s.inner, s.slots.length)) = some (true, none, [], 0) := by
  decide

/-- F9: on the unchanged tree, reconnect limit 1: after the loss and one failed attempt the
driver has given up (no retry pending) and the callbacks are `connected, disconnected` only. -/
theorem f9_witness_old_code_silent :
    (Conn.run Conn.stepOld { limit := some 1, hsSteps := 2 } [.connect, .lose, .timer]).map
      (fun c => (c.cbs, c.pending)) = some ([.connected, .disconnected], false) := by
  decide

/-- the repaired `_reconnect` reports `failed`, after exactly one failed attempt -/
theorem f9_fixed_code_reports :
    (Conn.run Conn.step { limit := some 1, hsSteps := 2 } [.connect, .lose, .timer]).map
      (fun c => (c.cbs, c.pending, c.failedAfter)) = some ([.connected, .disconnected, .failed], false, [1]) := by
  decide

/-! ## non-vacuity of the connection theorems -/

/-- limit 1: `connect()`, loss, one failed retry ⇒ `failed` (a run that reaches `failed`) -/
example :
    (Conn.run Conn.step { limit := some 1, hsSteps := 2 } [.connect, .hs, .hs, .lose, .timer]).map
      (fun c => (c.cbs, c.pending, c.count, c.failedAfter, c.langOK)) =
    some ([.connected, .disconnected, .failed], false, 0, [1], true) := by decide

/-- limit 1: `connect()`, loss, device back, retry ⇒ `connected` again, handshake repeated, up -/
example :
    (Conn.run Conn.step { limit := some 1, hsSteps := 2 } [.connect, .hs, .hs, .lose, .back, .timer, .hs, .hs]).map
      (fun c => (c.cbs, c.up, c.count, c.failedAfter, c.langOK)) =
    some ([.connected, .disconnected, .connected], true, 0, [], true) := by decide

/-- the limit is per outage: limit 2, the first outage uses one failed attempt and recovers, the
second outage still gets its full two attempts before `failed` (a lifetime budget would report
`failed` after one) -/
example :
    (Conn.run Conn.step { limit := some 2, hsSteps := 0 }
      [.connect, .lose, .timer, .back, .timer, .lose, .timer, .timer]).map
      (fun c => (c.cbs, c.pending, c.failedAfter)) =
    some ([.connected, .disconnected, .connected, .disconnected, .failed], false, [2]) := by decide

/-- … and after one failed attempt of the second outage a retry is still pending -/
example :
    (Conn.run Conn.step { limit := some 2, hsSteps := 0 }
      [.connect, .lose, .timer, .back, .timer, .lose, .timer]).map
      (fun c => (c.cbs, c.pending, c.count, c.attempts)) =
    some ([.connected, .disconnected, .connected, .disconnected], true, 2, 1) := by decide

/-- the hypotheses of the theorems are satisfiable: the default driver object is fresh, and the
interleaving model reaches `failed` and a reconnection through `step?` -/
example (limit : Option Nat) (hsSteps : Nat) : ({ limit := limit, hsSteps := hsSteps } : Conn).fresh :=
  ⟨rfl, rfl, rfl, rfl, rfl, rfl⟩

example :
    let s0 : St := { cap := 2, conn := { limit := some 1, hsSteps := 2 } }
    (run? s0 [.env .connect, .env .hs, .spawn (mkTask .tridonic (.send q0 true)), .env .hs, .act 0,
              .env .lose, .env .back, .env .timer, .env .hs, .env .hs, .act 0]).map
      (fun s => (s.conn.cbs, s.conn.up, s.tasks.map (·.prog.length))) =
    some ([.connected, .disconnected, .connected], true, [8]) := by decide

/-- a send queued across an outage completes after the recovery: the caller takes the lock, the
device is lost, returns, the handshake is repeated, and with the gateway answering (echo, answer
for sequence number 1) all ten steps of the Tridonic `send` run; everything is released -/
example :
    let s0 : St := { cap := 2, conn := { limit := some 1, hsSteps := 2 } }
    (run? s0 [.env .connect, .env .hs, .env .hs, .spawn (mkTask .tridonic (.send q0 true)), .act 0,
              .env .lose, .env .back, .env .timer, .env .hs, .env .hs,
              .act 0, .act 0, .act 0, .act 0, .deliver 1 .echo, .act 0, .deliver 1 .answer, .act 0,
              .act 0, .act 0, .act 0]).map
      (fun s => (s.conn.cbs, s.tasks.all Task.finished && s.lock.isNone && s.inner.isEmpty && s.slots.isEmpty,
                 measure s)) =
    some ([.connected, .disconnected, .connected], true, 0) := by decide

end DaliVerif.Props.C17
