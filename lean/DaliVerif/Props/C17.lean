import DaliVerif.Props.C15
/-!
# C17 — gateway loss or silence fails sends promptly and recovery is clean

Model: `Model/Async.lean` (tasks, locks, outstanding table, mailbox) with the
connection machine `Model/Conn.lean`; faults are labels of the schedule:
`env lose` (EOF / read error / failing write: `disconnect(reconnect=True)` with
`_shutdown_device`), `raise t e` (CommunicationError, TimeoutError, cancellation
at the action the task is blocked in), `env timer/back/gone/connect`.  The
theorems hold for every schedule, i.e. every placement of every fault.
-/
namespace DaliVerif.Props.C17
open DaliVerif.Async DaliVerif.Conn

/-- `no_leak`: in every reachable state in which all callers have finished — whatever mixture of
normal returns, CommunicationError, time-outs and cancellations at any await got them there, and
however many losses and reconnections happened — the transaction lock is free, the inner
serialiser (Tridonic semaphore / hasseb command lock / serial tx lock) is back at capacity and
`_outstanding` is empty. -/
theorem no_leak {s0 s : St} {ls : List Label} (h0 : s0.initial) (hl : ∀ l ∈ ls, l.ok)
    (h : run? s0 ls = some s) (hfin : ∀ (t : Tid) (tk : Async.Task), s.tasks[t]? = some tk → tk.prog = []) :
    s.lock = none ∧ s.inner = [] ∧ s.slots = [] :=
  C15.lock_free_at_end h0 hl h hfin

/-- `no_leak` for the four drivers: every schedule of `send` / `run_sequence` callers. -/
theorem no_leak_drivers (d : Driver) {s0 s : St} {ls : List Label} (h0 : s0.initial)
    (hd : C15.DriverSchedule d ls) (h : run? s0 ls = some s)
    (hfin : ∀ (t : Tid) (tk : Async.Task), s.tasks[t]? = some tk → tk.prog = []) :
    s.lock = none ∧ s.inner = [] ∧ s.slots = [] :=
  no_leak h0 (C15.driverSchedule_ok hd) h hfin

/-- `wrap_safe`: after any history, whenever a task is about to register a sequence number the
table of outstanding commands is empty — so the number can never be occupied, whatever the
counter's value, for 300 or any number of further sends (the `assert` of `_send_raw` cannot
fire). -/
theorem wrap_safe {s0 s : St} {ls : List Label} (h0 : s0.initial) (hl : ∀ l ∈ ls, l.ok)
    (h : run? s0 ls = some s) {t : Tid} {tk : Async.Task} {st : Step} {rest : List Step}
    (ht : s.tasks[t]? = some tk) (hp : tk.prog = st :: rest) (ha : st.act = .slot) :
    s.slots = [] ∧ (step? s (.act t)).isSome = true := by
  have hI := reachable_inv h0 hl h
  have hT := hI.tasks t tk ht
  have hw := hT.wf
  rw [hp] at hw
  obtain ⟨_, r', heff, _⟩ := wf_cons hw
  rw [ha] at heff
  obtain ⟨hit, hns⟩ := C15.eff_slot_pre heff
  have hlt : (res s t).lock = true := by
    have hok := hT.ok
    simp only [Res.ok, hit, Bool.not_true, Bool.false_or, Bool.and_eq_true] at hok
    exact hok.2
  have hlock := res_lock.mp hlt
  have hempty : s.slots = [] := by
    cases hsl : s.slots with
    | nil => rfl
    | cons x l =>
      have hm : x.2 ∈ s.owners := by simp [St.owners, hsl]
      have hx := hI.slotB _ hm
      have hgx : s.tasks[x.2]? = some s.tasks[x.2] := List.getElem?_eq_getElem hx
      have hok := (hI.tasks x.2 _ hgx).ok
      have hxs : (res s x.2).slot = true := res_slot.mpr hm
      have hxl : (res s x.2).lock = true := by
        cases hi : (res s x.2).inner <;> cases hlk2 : (res s x.2).lock <;> simp_all [Res.ok]
      have : x.2 = t := by
        have := res_lock.mp hxl
        rw [hlock] at this; cases this; rfl
      rw [this] at hxs
      rw [hxs] at hns; cases hns
  exact ⟨hempty, by simp [step?, actStep, ht, hp, ha, hempty]⟩

/-- `inflight_fail` (1): a loss hands every outstanding command a "fail" and empties the table. -/
theorem inflight_fail {s s' : St} (h : step? s (.env .lose) = some s') :
    s'.slots = [] ∧ (∀ q u, (q, u) ∈ s.slots → (q, Msg.fail) ∈ s'.mail) ∧ (0, Msg.fail) ∈ s'.mail := by
  simp only [step?] at h
  cases hc : Conn.step s.conn .lose with
  | none => simp [hc] at h
  | some c' =>
    simp only [hc, if_true] at h
    cases h
    refine ⟨rfl, ?_, ?_⟩
    · intro q u hqu
      simp only [shutdown, List.mem_append, List.mem_map]
      left; right
      exact ⟨(q, u), hqu, rfl⟩
    · simp [shutdown]

/-- `inflight_fail` (2): a task waiting for a report whose next message is "fail" cannot continue
normally — its only step is to raise; with exceptions on (`retry = none`) it leaves with that
error after its clean-up, with exceptions off it re-enters the send loop (`raiseStep`). -/
theorem inflight_fail_must_raise {s : St} {t : Tid} {tk : Async.Task} {m : Msg} {timed : Bool}
    {rest : List Step} {st : Step} (ht : s.tasks[t]? = some tk) (hp : tk.prog = st :: rest)
    (ha : st.act = .await m timed) (hm : m ≠ .fail) {mail' : List (Nat × Msg)}
    (hfail : takeMail tk.tag (awaitSel tk.tag m) s.mail = some (.fail, mail')) :
    step? s (.act t) = none := by
  simp only [step?, actStep, ht, hp, ha, hfail]
  rw [if_neg (fun e : Msg.fail = m => hm e.symm)]

/-- `serial_timeout`: a confirmation time-out (or any exception or cancellation) in a serial send
leaves the call with everything released; the wait for the backward frame can always end
(`poll` is enabled with or without an answer: "no answer" after `timeout_rx`). -/
theorem serial_timeout {s0 s s' : St} {ls : List Label} (h0 : s0.initial) (hl : ∀ l ∈ ls, l.ok)
    (h : run? s0 ls = some s) {t : Tid} {tk : Async.Task} (ht : s.tasks[t]? = some tk)
    (hnoretry : tk.retry = none) (hstep : step? s (.raise t .timeout) = some s') :
    ∃ tk', s'.tasks[t]? = some tk' ∧ tk'.exc = some .timeout ∧
      cleanupOK (res s' t) (tk'.prog.map (·.act)) = true :=
  C15.release_on_raise_or_cancel h0 hl h ht hnoretry hstep

theorem serial_answer_wait_ends {s : St} {t : Tid} {tk : Async.Task} {st : Step} {rest : List Step}
    (ht : s.tasks[t]? = some tk) (hp : tk.prog = st :: rest) (ha : st.act = .poll) :
    (step? s (.act t)).isSome = true := by
  simp only [step?, actStep, ht, hp, ha]
  split <;> rfl

/-- `recovery_partial`: while disconnected with a retry pending, once the device is back the next
timer re-opens it, reports `connected` and restarts the handshake; `hsSteps` reports later
`connected` is set again (then `connWait` is enabled and C15's `progress_partial` applies). -/
theorem recovery_partial (c : Conn) (hp : c.pending = true) (hfd : c.fd = false) (hpr : c.present = true) :
    ∃ c', Conn.step c .timer = some c' ∧ c'.fd = true ∧ c'.hsLeft = c.hsSteps ∧
      c'.cbs = c.cbs ++ [.connected] ∧ c'.count = 0 ∧ c'.pending = false := by
  obtain ⟨limit, hsSteps, present, fd, hsLeft, count, pending, cbs, attempts, failedAfter⟩ := c
  simp only at hp hfd hpr
  subst hp hfd hpr
  refine ⟨{ limit := limit, hsSteps := hsSteps, present := true, fd := true, hsLeft := hsSteps, count := 0,
            pending := false, cbs := cbs ++ [.connected], attempts := attempts, failedAfter := failedAfter },
          by simp [Conn.step, stepWith, openWith], rfl, rfl, rfl, rfl, rfl⟩

theorem handshake_completes (c : Conn) (hfd : c.fd = true) (n : Nat) (hn : c.hsLeft = n) :
    ∃ c', Conn.run Conn.step c (List.replicate n .hs) = some c' ∧ c'.up = true ∧ c'.cbs = c.cbs := by
  induction n generalizing c with
  | zero => exact ⟨c, rfl, by simp [Conn.up, hfd, hn], rfl⟩
  | succ k ih =>
    obtain ⟨c', h1, h2, h3⟩ := ih { c with hsLeft := k } hfd rfl
    refine ⟨c', ?_, h2, h3⟩
    simp only [List.replicate_succ, Conn.run]
    have : Conn.step c .hs = some { c with hsLeft := k } := by
      simp [Conn.step, stepWith, hfd, hn]
    rw [this]; exact h1

/-! ## the unchanged tree: witnesses (negations of the theorems above on the old programs) -/

def q0 : Cmd := ⟨⟨16, 0x05A0, false, 0⟩, true⟩

/-- F8: on the unchanged tree a Tridonic `send` cancelled while it waits for the gateway ends with
its `_outstanding` entry still registered although every caller has finished. -/
theorem f8_witness_old_code_leaks :
    let s0 : St := { cap := 2, conn := { limit := none, hsSteps := 2, fd := true } }
    (run? s0 [.spawn (mkTaskOldTridonicSend q0), .act 0, .act 0, .act 0, .act 0, .act 0,
              .raise 0 .cancelled, .act 0, .act 0]).map
      (fun s => (s.tasks.all Task.finished, s.lock, s.inner, s.slots.length)) = some (true, none, [], 1) := by
  decide

/-- the same schedule on the repaired program leaves nothing behind -/
theorem f8_fixed_code_clean :
    let s0 : St := { cap := 2, conn := { limit := none, hsSteps := 2, fd := true } }
    (run? s0 [.spawn (mkTask .tridonic (.send q0 true)), .act 0, .act 0, .act 0, .act 0, .act 0,
              .raise 0 .cancelled, .act 0, .act 0, .act 0]).map
      (fun s => (s.tasks.all Task.finished, s.lock, s.inner, s.slots.length)) = some (true, none, [], 0) := by
  decide

/-- F9: on the unchanged tree, reconnect limit 1: after the loss and one failed attempt the
driver has given up (no retry pending) and the callbacks are `connected, disconnected` only. -/
theorem f9_witness_old_code_silent :
    (Conn.run Conn.stepOld { limit := some 1, hsSteps := 2 } [.connect, .lose, .timer]).map
      (fun c => (c.cbs, c.pending)) = some ([.connected, .disconnected], false) := by
  decide

/-- the repaired `_reconnect` reports `failed`, after exactly one failed attempt -/
theorem f9_fixed_code_reports :
    (Conn.run Conn.step { limit := some 1, hsSteps := 2 } [.connect, .lose, .timer]).map
      (fun c => (c.cbs, c.pending, c.failedAfter)) = some ([.connected, .disconnected, .failed], false, [1]) := by
  decide

end DaliVerif.Props.C17
