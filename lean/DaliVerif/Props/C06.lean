import DaliVerif.Proofs.Response
import DaliVerif.Gen.Responses
/-!
# C06 — responses interpret every backward-frame outcome faithfully and totally

Property theorems only.  `Resp.*` is the model of the response classes
(`Model/Response.lean`, tied to the code exhaustively: every class × 513
outcomes × every accessor on every run), `Spec.Resp.*` the statement of the
property as predicates on results, `Gen.responses` the table regenerated from
the working tree.

Part (a): generic theorems per *implementor kind*, for every class record `c`
(whatever its data) and every outcome.  Part (b): the regenerated table
satisfies the decidable side conditions (`table_wellFormed`, by kernel
evaluation on every run), hence every reachable class is faithful on every
outcome (`faithful`).
-/
namespace DaliVerif.Props.C06
open DaliVerif DaliVerif.Resp DaliVerif.Spec.Resp

/-! ## (a) generic theorems -/

/-- "a response can only be built from a backward frame or None": the
constructor accepts exactly `None` and instances of `BackwardFrame`; every
other argument kind is a `TypeError`. -/
theorem ctor_rejects_non_frames (a : CtorArg) :
    construct a =
      match a with
      | .none | .py .none => .ok .none
      | .backward false b => .ok (.ok b)
      | .backward true b => .ok (.err b)
      | _ => .error .TypeError := by
  cases a with
  | none => rfl
  | backward e b => cases e <;> rfl
  | otherFrame => rfl
  | py v => cases v <;> rfl

/-- "the raw frame is passed through unchanged": `raw_value` is the object
the response was built from. -/
theorem raw_passthrough (e : Bool) (b : Fin 256) (o : Outcome)
    (h : construct (.backward e b) = .ok o) : rawValue o = .frame e b.val := by
  cases e <;> (injection h with h; subst h; rfl)

theorem raw_passthrough_none (o : Outcome) (h : construct .none = .ok o) : rawValue o = .none := by
  injection h with h; subst h; rfl

/-- "a yes/no response is true exactly when anything at all was received" -/
theorem yesno_value (c : RespClass) (h : c.value = .yesNo) (o : Outcome) :
    respValue c o = some (.ok (.bool (decide (o ≠ .none)))) := by
  cases o <;> simp [respValue, h, yesNoValue]

/-- "a numeric response yields the integer exactly when a clean frame was
received …" -/
theorem numeric_value (c : RespClass) (h : c.value = .numeric) (o : Outcome) (n : Nat) :
    respValue c o = some (.ok (.int n)) ↔ ∃ b : Fin 256, o = .ok b ∧ b.val = n := by
  cases o <;> simp [respValue, h, numericValue]

/-- "… and a non-integer marker otherwise" (a string, never an exception) -/
theorem numeric_marker (c : RespClass) (h : c.value = .numeric) (o : Outcome)
    (ho : ∀ b, o ≠ .ok b) : ∃ s, respValue c o = some (.ok (.str s)) := by
  cases o with
  | ok b => exact absurd rfl (ho b)
  | none => exact ⟨"(missing)", by simp [respValue, h, numericValue]⟩
  | err b => exact ⟨"(framing error)", by simp [respValue, h, numericValue]⟩

/-- "(255 reads as MASK where the standard says so)": the mask kind gives
`"MASK"` for a clean 255, the integer for every other clean frame, and the
same markers as the plain numeric kind otherwise. -/
theorem numeric_mask_value (c : RespClass) (h : c.value = .numericMask) (o : Outcome) :
    respValue c o = some (.ok (match o with
      | .ok b => if b.val = 255 then .str "MASK" else .int b.val
      | .none => .str "(missing)"
      | .err _ => .str "(framing error)")) := by
  cases o with
  | none => simp [respValue, h, numericMaskValue, numericValue]
  | err b => simp [respValue, h, numericMaskValue, numericValue]
  | ok b =>
    simp only [respValue, h, numericMaskValue, numericValue]
    by_cases hb : b.val = 255
    · simp [hb]
    · simp only [hb, if_false]
      split
      · rename_i heq; injection heq with heq; exact absurd heq hb
      · rfl

/-- "a generic response hands back the frame itself" -/
theorem generic_value (c : RespClass) (h : c.value = .base) (b : Fin 256) :
    respValue c (.ok b) = some (.ok (.frame false b.val)) := by
  simp [respValue, h, baseValue]

/-- "a response that cannot tolerate a missing or garbled answer says so with
MissingResponse or ResponseError" — and one that can, hands back what it got. -/
theorem missing_or_garbled (c : RespClass) (h : c.value = .base) :
    respValue c .none = some (if c.expected then .error .MissingResponse else .ok .none) ∧
    ∀ b, respValue c (.err b) =
      some (if c.errorAcceptable then .ok (.frame true b.val) else .error .ResponseError) := by
  constructor
  · simp [respValue, h, baseValue]
  · intro b; cases he : c.errorAcceptable <;> simp [respValue, h, baseValue, he]

/-- "an enumerated response also rejects undefined codes with ValueError" and
maps defined codes to the member with that value. -/
theorem enum_rejects_undefined (c : RespClass) (h : c.value = .enum) (b : Fin 256) :
    respValue c (.ok b) =
      some (if b.val ∈ Spec.Resp.memberValues c then .ok (.enum b.val) else .error .ValueError) := by
  simp only [respValue, h, enumValue, baseValue, memberValues_eq]
  by_cases hm : b.val ∈ Spec.Resp.memberValues c <;> simp [hm]

/-- the enumerated response does not swallow silence or a garbled answer -/
theorem enum_missing_or_garbled (c : RespClass) (h : c.value = .enum) (he : c.errorAcceptable = false) :
    respValue c .none = some (if c.expected then .error .MissingResponse else .ok .none) ∧
    ∀ b, respValue c (.err b) = some (.error .ResponseError) := by
  constructor
  · cases hx : c.expected <;> simp [respValue, h, enumValue, baseValue, hx]
  · intro b; simp [respValue, h, enumValue, baseValue, he]

/-- "a bitmap response lists exactly the names of the set bits": for a clean
frame `status` is the reference comprehension over `bits`, for any `bits`. -/
theorem bitmap_status (c : RespClass) (h : c.status = .bitmap) (b : Fin 256) :
    respStatus c (.ok b) = some (.ok (.strs (setBitNames c.bits b.val))) := by
  simp [respStatus, h, bitmapStatus, statusLoop_eq]

/-- "… and exposes each named bit": an attribute name that `_bit_properties`
maps to index `i < 8` (and that no extra property shadows) reads bit `i` of a
clean frame, and `None` when there is no clean frame. -/
theorem bit_attr (c : RespClass) (h : c.getattr = .bitmap) (name : String) (i : Nat)
    (hl : lookupProp name c.bitProps = some i) (hx : lookupExtra name c.extras = none)
    (hi : i < 8) (o : Outcome) :
    respAttr c name o = some (match o with
      | .ok b => .ok (.bool (b.val.testBit i))
      | _ => .ok .none) := by
  cases o <;> simp [respAttr, hx, respGetattr, h, bitmapGetattr, hl, bitAt, hi]

/-- an attribute that is neither a named bit nor an extra property does not exist -/
theorem unknown_attr (c : RespClass) (name : String)
    (hl : lookupProp name c.bitProps = none) (hx : lookupExtra name c.extras = none)
    (o : Outcome) (hk : ∀ q, c.getattr ≠ .custom q) :
    respAttr c name o = some (.error .AttributeError) := by
  simp only [respAttr, hx, respGetattr]
  cases hg : c.getattr with
  | bitmap => simp [bitmapGetattr, hl]
  | absent => rfl
  | custom q => exact absurd hg (hk q)

/-- "Rendering a response as text never raises MissingResponse or
ResponseError" — for every class record that satisfies the decidable side
conditions and every outcome. -/
theorem str_never_raises_missing_or_response_error (c : RespClass) (h : WellFormed c = true)
    (o : Outcome) :
    ∃ r, respStr c o = some r ∧ r ≠ .error .MissingResponse ∧ r ≠ .error .ResponseError := by
  have := strHolds_of_wellFormed c h o
  unfold strHolds at this
  cases hr : respStr c o with
  | none => simp [hr] at this
  | some r =>
    refine ⟨r, rfl, ?_, ?_⟩ <;> (intro he; subst he; simp [hr, strOK] at this)

/-- The whole statement for one class: well-formedness of its table row gives
faithfulness on **every** outcome (no enumeration of outcomes). -/
theorem faithful_of_wellFormed (c : RespClass) (h : WellFormed c = true) :
    ∀ o : Outcome, holds c o = true :=
  holds_of_wellFormed c h

/-! ## (b) the regenerated table -/

/-- Every response class reachable from a command class in the current tree
has only implementors the model knows, its `value` implementor is the one its
base class promises, its named bits are exposed, … (re-evaluated by the
kernel against the regenerated `Gen.responses` on every run). -/
theorem table_wellFormed : ∀ c ∈ Gen.responses, WellFormed c = true := by decide +kernel

/-- The data the behaviour depends on is what the standard says: category,
`_expected` / `_error_acceptable`, the name of every bit of every bitmap
answer in its position, the codes of the enumerated answers and the device
type names all equal the independently transcribed `Spec.Resp.table`
(rows for parts 205/206 are pinned, see that file). -/
theorem table_matches_standard :
    Gen.responses.map project = Spec.Resp.table.map unpin := by decide +kernel

/-- **C06 for the current tree**: every reachable response class, on every
one of the 513 bus outcomes, yields a `value` acceptable for its category,
renders as text without `MissingResponse`/`ResponseError`, and (bitmap
classes) lists exactly the set bits and exposes each named bit. -/
theorem faithful : ∀ c ∈ Gen.responses, ∀ o : Outcome, holds c o = true :=
  fun c hc => holds_of_wellFormed c (table_wellFormed c hc)

/-- text rendering of every reachable class on every outcome -/
theorem str_total : ∀ c ∈ Gen.responses, ∀ o : Outcome,
    ∃ r, respStr c o = some r ∧ r ≠ .error .MissingResponse ∧ r ≠ .error .ResponseError :=
  fun c hc => str_never_raises_missing_or_response_error c (table_wellFormed c hc)

/-! ## the defect repaired by `fix:` 2ee3618 (F1), kept as a witness -/

/-- `Response.__str__` as it was: `except MissingResponse or ResponseError`
catches `MissingResponse` only. -/
def baseStrBeforeFix (v : PyRes Val) : PyRes Text :=
  match v with
  | .ok v => .ok (.s v.format)
  | .error .MissingResponse => .ok (.s "")
  | .error e => .error e

/-- F1: with the old handler, `str(Response(BackwardFrameError(b)))` raised
`ResponseError` for every `b`. -/
theorem str_raised_before_fix (b : Fin 256) :
    baseStrBeforeFix (baseValue false false (.err b)) = .error .ResponseError := rfl

/-! ## non-vacuity -/

example : Gen.responses ≠ [] := by decide +kernel
example : ∃ c ∈ Gen.responses, catOf c = .yesNo := by decide +kernel
example : ∃ c ∈ Gen.responses, catOf c = .numericMask := by decide +kernel
example : ∃ c ∈ Gen.responses, catOf c = .bitmap ∧ c.bits.length = 8 := by decide +kernel
example : ∃ c ∈ Gen.responses, catOf c = .enum ∧ c.members ≠ [] := by decide +kernel
example : ∃ c ∈ Gen.responses, catOf c = .enumMask := by decide +kernel
example : ∃ c ∈ Gen.responses, catOf c = .generic ∧ c.expected = false := by decide +kernel
example : setBitNames ["a", "", "c"] 7 = ["a", "c"] := by decide +kernel
example : baseValue true false .none = .error .MissingResponse := rfl

end DaliVerif.Props.C06
