import DaliVerif.Proofs.Instance
import DaliVerif.Gen.Commands
/-!
# C04 — address and instance bytes: exact, local, mutually exclusive codec

`Addr`/`Inst` are the models of `dali/address.py` (`Model/Address.lean`, tied to
the code exhaustively by the correspondence suite `address`); `Spec.partition`
and `Spec.instOfByte` are the standard's tables written by byte ranges.
-/
set_option linter.unusedSimpArgs false
namespace DaliVerif.Props.C04
open DaliVerif Frame Spec Addr

/-- **Decode partition** — for every frame of every size and every registration
order that contains the eight concrete classes, reading the frame yields at
most one address kind, chosen exactly by the standard's partition of the
address byte (short, group, broadcast, broadcast-unaddressed, otherwise none;
device kinds only in 24-bit command frames). -/
theorem decode_partition (order : List AddrKind) (hok : OrderOK order) (f : Frame) :
    Addr.fromFrame order f = partition f :=
  fromFrame_eq_partition order hok f

/-- bits of `512 * b + d % 512` -/
private theorem testBit_low (k b d i : Nat) (hi : i < k) :
    (2 ^ k * b + d % 2 ^ k).testBit i = d.testBit i := by
  rw [Nat.testBit_two_pow_mul_add _ (Nat.mod_lt _ (Nat.two_pow_pos k))]
  simp [hi, Nat.testBit_mod_two_pow]

/-- **Gear address: write is local and reads back** — for all 82 gear address
values and all 2^16 frames: the write succeeds, the width stays 16, only bits
15..9 can change, and reading the frame back yields the same address. -/
theorem gear_write_read (order : List AddrKind) (hok : OrderOK order)
    (a : Addr) (hv : a.Valid) (hg : a.isGear = true) (d : Nat) (hd : d < 2 ^ 16) :
    ∃ d', a.addToFrame ⟨16, d⟩ = .ok ⟨16, d'⟩ ∧ d' < 2 ^ 16 ∧
      (∀ i, ¬ (9 ≤ i ∧ i ≤ 15) → d'.testBit i = d.testBit i) ∧
      Addr.fromFrame order ⟨16, d'⟩ = some a := by
  have hd16 : d < 65536 := by simpa using hd
  have hb := addrByte_lt a hv
  refine ⟨512 * addrByte a + d % 512, addToFrame_gear a hv hg d hd16, by simp; omega, ?_, ?_⟩
  · intro i hi
    by_cases h : i < 9
    · exact testBit_low 9 _ _ _ h
    · have h16 : 16 ≤ i := by omega
      rw [testBit_eq_false_of_lt (bits := 16) (by simp; omega) h16,
        testBit_eq_false_of_lt hd h16]
  · rw [decode_partition order hok]
    simp only [partition, if_true]
    have : (512 * addrByte a + d % 512) / 512 % 128 = addrByte a := by omega
    rw [this]
    exact gearPartition_addrByte a hv hg

/-- **Device address: write is local and reads back** — for all 98 device
address values and all 2^24 frames the write changes only bits 23..17; when
the frame is a command frame (bit 16 = 1, which the device kinds require — an
event frame carries no address by the partition clause) it reads back. -/
theorem device_write_read (order : List AddrKind) (hok : OrderOK order)
    (a : Addr) (hv : a.Valid) (hg : a.isGear = false) (d : Nat) (hd : d < 2 ^ 24) :
    ∃ d', a.addToFrame ⟨24, d⟩ = .ok ⟨24, d'⟩ ∧ d' < 2 ^ 24 ∧
      (∀ i, ¬ (17 ≤ i ∧ i ≤ 23) → d'.testBit i = d.testBit i) ∧
      (d.testBit 16 = true → Addr.fromFrame order ⟨24, d'⟩ = some a) := by
  have hd24 : d < 16777216 := by simpa using hd
  have hb := addrByte_lt a hv
  refine ⟨131072 * addrByte a + d % 131072, addToFrame_device a hv hg d hd24, by simp; omega,
    ?_, ?_⟩
  · intro i hi
    by_cases h : i < 17
    · exact testBit_low 17 _ _ _ h
    · have h24 : 24 ≤ i := by omega
      rw [testBit_eq_false_of_lt (bits := 24) (by simp; omega) h24,
        testBit_eq_false_of_lt hd h24]
  · intro h16
    rw [Nat.testBit_eq_decide_div_mod_eq] at h16
    simp only [Nat.reducePow, decide_eq_true_eq] at h16
    rw [decode_partition order hok]
    have e1 : (131072 * addrByte a + d % 131072) / 131072 % 128 = addrByte a := by omega
    have e2 : (131072 * addrByte a + d % 131072) / 65536 % 2 = 1 := by omega
    simp only [partition, Nat.reduceEqDiff, if_false, if_true, e1, e2, decide_true]
    exact devicePartition_addrByte a hv hg

/-- The excluded point of `device_write_read`: written into an event frame
(bit 16 = 0) a device address does not read back — and must not, by the
partition clause. -/
example : (Addr.deviceShort 5).addToFrame ⟨24, 0⟩ = .ok ⟨24, 5 * 131072⟩ ∧
    partition ⟨24, 5 * 131072⟩ = none := by decide

/-- **Wrong size refused** — a frame of any other size is refused with
`IncompatibleFrame`; no new frame is produced (left unmodified by type). -/
theorem wrong_size_refused (a : Addr) (f : Frame) (h : f.bits ≠ a.frameSize) :
    a.addToFrame f = .error .IncompatibleFrame := by
  simp [Addr.addToFrame, h]

/-- **Equality** holds exactly when kind and number agree; in particular gear
and device kinds are never equal to each other. -/
theorem eq_iff (a b : Addr) : a.eq b = true ↔ a = b := by
  cases a <;> cases b <;> simp [Addr.eq]

theorem gear_ne_device (a b : Addr) (ha : a.isGear = true) (hb : b.isGear = false) :
    a.eq b = false := by
  cases a <;> cases b <;> simp [Addr.eq, Addr.isGear] at *

/-- **Instance byte: exactly one kind for each of the 256 bytes** — reading
any 24-bit frame yields the instance kind the standard's Table 2 assigns to
bits 15..8 (a total function: exactly one kind per byte). -/
theorem inst_partition (d : Nat) :
    Inst.fromFrame ⟨24, d⟩ = some (instOfByte (d / 256 % 256)) := by
  rw [Inst.fromFrame_eq_ofByteModel]
  exact congrArg some (Inst.ofByteModel_eq_spec ⟨d / 256 % 256, Nat.mod_lt _ (by decide)⟩)

/-- a frame of any other size carries no instance byte and is refused on write -/
theorem inst_wrong_size (i : Inst) (f : Frame) (h : f.bits ≠ 24) :
    Inst.fromFrame f = none ∧ i.addToFrame f = .error .IncompatibleFrame := by
  simp [Inst.fromFrame, Inst.addToFrame, h]

/-- **Instance byte: write is local and reads back** — for all 196 instance
values (and the 60 reserved bytes as decoding produces them) and all 2^24
frames: only bits 15..8 change and reading back yields an equal object. -/
theorem inst_write_read (i : Inst) (hc : i.Canonical) (d : Nat) (hd : d < 2 ^ 24) :
    ∃ d', i.addToFrame ⟨24, d⟩ = .ok ⟨24, d'⟩ ∧ d' < 2 ^ 24 ∧
      (∀ j, ¬ (8 ≤ j ∧ j ≤ 15) → d'.testBit j = d.testBit j) ∧
      Inst.fromFrame ⟨24, d'⟩ = some i ∧ i.eq i = true := by
  have hb := Inst.byte_lt i hc.1
  have hb' : i.byte < 2 ^ (15 + 1 - 8) := by simpa using hb
  have hvc := (value_checks (i.byte : Int) (15 + 1 - 8)).mpr
    ⟨Int.natCast_nonneg _, by exact_mod_cast hb'⟩
  refine ⟨setSliceRaw 24 d 15 8 i.byte, ?_, setSliceRaw_lt 24 d 15 8 _ (by omega) (by omega) hd hb',
    ?_, ?_, by simp [Inst.eq]⟩
  · have hrs : (⟨24, d⟩ : Frame).readSlice (.int 15) (.int 8) .none = .ok (15, 8) := by
      simp only [Frame.readSlice, PyVal.asInt?]; rfl
    simp only [Inst.addToFrame, bne_self_eq_false, Bool.false_eq_true, if_false, Frame.setItem,
      hrs, PyVal.asInt?, bind, Except.bind]
    have h1 : ¬ (bitLength (i.byte : Int) > 15 + 1 - 8) := hvc.1
    have h2 : ¬ ((i.byte : Int) < 0) := hvc.2
    simp [h1, h2, pure, Except.pure]
  · intro j hj
    rw [testBit_setSliceRaw 24 d 15 8 _ j (by omega) (by omega) hd hb']
    simp [hj]
  · rw [Inst.fromFrame_eq_ofByteModel]
    have : setSliceRaw 24 d 15 8 i.byte / 256 % 256 = i.byte := by
      rw [setSliceRaw_eqA 24 d 15 8 _ (by omega) (by omega) hd hb']
      simp [setSliceA]; omega
    rw [this, Inst.ofByteModel_byte i hc]

/-- instance objects are equal exactly when kind and number agree -/
theorem inst_eq_iff (a b : Inst) : a.eq b = true ↔ a = b := by
  simp [Inst.eq]

/-- **The tie to the current tree**: the registration order regenerated from
`dali.address.Address._addrtypes` contains the eight concrete classes and no
class the model does not know, so the theorems above apply to `Gen.tables`. -/
theorem order_ok : OrderOK Gen.tables.addrOrder ∧ Gen.unknownAddrClasses = [] := by
  decide

/-! ### non-vacuity -/
example : OrderOK [.gearAbstract, .deviceAbstract, .gearBroadcast, .deviceBroadcast,
    .gearUnaddressed, .deviceUnaddressed, .gearGroup, .deviceGroup, .gearShort, .deviceShort] := by
  decide
example : (Addr.gearGroup 15).Valid ∧ (Inst.reserved 0x45).Canonical ∧ (Inst.type 31).Canonical := by
  refine ⟨by decide, ⟨by decide, ?_⟩, ⟨by decide, ?_⟩⟩ <;> intro b hb <;> simp at hb
  subst hb; decide

end DaliVerif.Props.C04
