import DaliVerif.Proofs.DevSeq
import DaliVerif.Proofs.DevSeqBacked
/-!
# C13 — control-device sequences move multi-byte settings and scan results intact

The sequences of `dali/device/sequences.py` and the discovery scan of
`dali/device/helpers.py` (models in `Model/DevSeq.lean`) run against the
specification bus of IEC 62386-103 control devices (`Spec/DeviceUnit.lean`),
and — for the fault clauses — against *any* responder (`Prog.Out`).

All statements are for every bus, every device/instance position, every stale
DTR content, every resolution ≥ 1 (no upper bound), every value, every
population and address list; nothing is bounded.
-/
namespace DaliVerif.Props.C13
open DaliVerif DaliVerif.DevMem DaliVerif.DevMem.Prog

/-- **Input value, resolution supplied.**  For every resolution `N ≥ 1` and every
measured value `v < 2^N` the byte-wise read reassembles exactly `v` (the value
the unit latched when QUERY INPUT VALUE arrived). -/
theorem inputValue_spec (b : Bus) (a i : Nat) (d : Device) (x : Instance)
    (hb : b.Has a i d x) (ha : addrOK a i = true) (N : Nat) (hN : 1 ≤ N)
    (hres : x.resolution = N) (hlt : x.value b.clock < 2 ^ N) :
    ((queryInputValue a i (some N)).run Bus.step b).1 = .ok (x.value b.clock) :=
  queryInputValue_some b a i d x hb ha N hN hres hlt

/-- **Input value, resolution queried first** (`resolution=None`). -/
theorem inputValue_spec_queried (b : Bus) (a i : Nat) (d : Device) (x : Instance)
    (hb : b.Has a i d x) (ha : addrOK a i = true) (hN : 1 ≤ x.resolution)
    (hlt : x.value (b.clock + 1) < 2 ^ x.resolution) :
    ((queryInputValue a i none).run Bus.step b).1 = .ok (x.value (b.clock + 1)) :=
  queryInputValue_none b a i d x hb ha hN hlt

/-- the arithmetic core: `((v <<< pad) ||| fill) >>> pad = v` for the
repeated-MSB fill of IEC 62386-103 §9.7.2 -/
theorem inputValue_core (n v p : Nat) (hn : 0 < n) (hv : v < 2 ^ n) :
    repBits n v (n + p) >>> p = v := repBits_split n v p hn hv

/-- **Set event filter** for an 8-, 16- or 24-bit filter enum used with an
instance of that filter width, any value `< 2^width`, *any stale DTR0/1/2
contents* (they are fields of `d`): the instance ends with exactly that filter
(everything else of the instance untouched) and the sequence returns it.
True of the code after the F5 repair. -/
theorem setFilter_spec (b : Bus) (a i : Nat) (d : Device) (x : Instance)
    (hb : b.Has a i d x) (ha : addrOK a i = true) (w : Nat) (hw : w = 8 ∨ w = 16 ∨ w = 24)
    (hfw : x.filterWidth = w) (value : Nat) (hv : value < 2 ^ w) :
    ((setEventFilters a i (some w) value).run Bus.step b).1 = .ok (some value) ∧
    ((setEventFilters a i (some w) value).run Bus.step b).2.inst? a i =
      some { x with filter := value } :=
  setEventFilters_run b a i d x hb ha w hw hfw value hv

/-- **Query event filter** returns exactly the unit's filter and changes no device. -/
theorem queryFilter_spec (b : Bus) (a i : Nat) (d : Device) (x : Instance)
    (hb : b.Has a i d x) (ha : addrOK a i = true) (w : Nat) (hw : w = 8 ∨ w = 16 ∨ w = 24)
    (hv : x.filter < 2 ^ w) :
    ((queryEventFilters a i w).run Bus.step b).1 = .ok (some x.filter) ∧
    ((queryEventFilters a i w).run Bus.step b).2.devs = b.devs :=
  queryEventFilters_run b a i d x hb ha w hw hv

/-- **Set event scheme** for the five schemes: the instance ends with that
scheme and the unit's read-back is returned. -/
theorem setScheme_spec (b : Bus) (a i : Nat) (d : Device) (x : Instance)
    (hb : b.Has a i d x) (ha : addrOK a i = true) (s : Nat) (hs : s ≤ 4) :
    ((setEventSchemes a i s).run Bus.step b).1 = .ok (.byte s) ∧
    ((setEventSchemes a i s).run Bus.step b).2.inst? a i = some { x with scheme := s } :=
  setEventSchemes_run b a i d x hb ha s hs

/-- any other scheme: `ValueError` before any command is sent (empty trace,
bus untouched) -/
theorem setScheme_invalid (b : Bus) (a i : Nat) (s : Int) (hs : s < 0 ∨ s > 4) :
    (setEventSchemes a i s).run (traced Bus.step) (b, []) = (.error .ValueError, (b, [])) :=
  setEventSchemes_invalid b a i s hs

/-- **Discovery**, every population (any map short address → device, any status
bits, any instance lists up to 32, any enabled flags and types) and any list
of addresses ≤ 63: the scan returns normally, the `add_type` calls it made are
exactly `expectedLog` (per scanned address, per enabled instance of a device
that answered and is neither unaddressed nor in reset state, in order), no
device changed, quiescent mode is off afterwards. -/
theorem autodiscover_spec (b : Bus) (hD : ∀ a d, b.devs a = some d → d.instances.length ≤ 32)
    (addrs : List Nat) (haddr : ∀ a ∈ addrs, a ≤ 63) :
    ∃ c', (autodiscover addrs).run Bus.step b = (.ok (expectedLog b.devs addrs), ⟨c', b.devs, false⟩) :=
  autodiscover_run b hD addrs haddr

/-- the mapping afterwards: overridden at exactly the keys `(a, i)` with `a`
scanned, device `a` present and healthy, `i` one of its instances and enabled —
with that instance's type — and equal to the old mapping everywhere else. -/
theorem autodiscover_mapping (D : Nat → Option Device) (addrs : List Nat)
    (init : Nat × Nat → Option Nat) (a i : Nat) :
    lookupLog (expectedLog D addrs) init (a, i) =
      match expectedType D addrs a i with
      | some t => some t
      | none => init (a, i) :=
  lookup_expectedLog D addrs init a i

/-- **Faults, discovery** — against *any* responder (silence, framing errors,
wrong or inconsistent answers at any step): the first command is START
QUIESCENT MODE; the scan either returns normally with STOP QUIESCENT MODE as
its last command and every recorded type backed by a clean answer to QUERY
INSTANCE TYPE for that very (address, instance), or raises `ValueError` (only
possible when a unit claims more than 32 instances or an address > 63 is
given).  No other exception class, no invented value. -/
theorem faults_benign_autodiscover (addrs : List Nat) (tr : List (Cmd × Resp)) (out : PyRes TypeLog)
    (h : Out (autodiscover addrs) tr out) :
    (∃ r tr', tr = (.startQuiescentMode, r) :: tr') ∧
    ((out = .error .ValueError) ∨
      (∃ log tr0 r, out = .ok log ∧ tr = tr0 ++ [(.stopQuiescentMode, r)] ∧ ∀ e ∈ log, Backed tr e)) :=
  autodiscover_faults addrs tr out h

/-- **Faults, discovery: a missing or garbled answer is a skip** — against *any*
responder, every entry `((a, i), t)` the scan records is backed, in this very
exchange, by a clean byte answer to each of the four queries it depends on:
QUERY DEVICE STATUS `a` (showing neither "short address is MASK" nor "reset
state"), QUERY NUMBER OF INSTANCES `a`, QUERY INSTANCE ENABLED `(a, i)` and
QUERY INSTANCE TYPE `(a, i)` (= `t`).  So silence or a framing error on the
answer to QUERY INSTANCE ENABLED (or to any of the others) can only lead to
that instance / device being skipped, never to an entry. -/
theorem faults_skip_autodiscover (addrs : List Nat) (tr : List (Cmd × Resp)) (out : PyRes TypeLog)
    (h : Out (autodiscover addrs) tr out) :
    (out = .error .ValueError) ∨
    (∃ log, out = .ok log ∧ ∀ e ∈ log,
      ((∃ en, (Cmd.queryInstanceEnabled e.1.1 e.1.2, Resp.byte en) ∈ tr) ∧
        (Cmd.queryInstanceType e.1.1 e.1.2, Resp.byte e.2) ∈ tr) ∧
      (∃ st, (Cmd.queryDeviceStatus e.1.1, Resp.byte st) ∈ tr ∧ ¬ (st / 4 % 2 = 1 ∨ st / 64 % 2 = 1)) ∧
      (∃ n, (Cmd.queryNumberOfInstances e.1.1, Resp.byte n) ∈ tr)) :=
  autodiscover_faults2 addrs tr out h

/-- **Faults, input value** — against any responder: a value is returned only
if *every* answer was a clean backward frame; any silence or framing error at
any step gives `DALISequenceError`; `ValueError` only for an address out of
range, before anything is sent. -/
theorem faults_benign_inputValue (a i : Nat) (r? : Option Nat) (tr : List (Cmd × Resp))
    (out : PyRes Nat) (h : Out (queryInputValue a i r?) tr out) :
    (out = .error .ValueError ∧ tr = []) ∨ (out = .error .DALISequenceError ∧ ¬ AllBytes tr) ∨
      (∃ v, out = .ok v ∧ AllBytes tr) :=
  queryInputValue_faults a i r? tr out h

/-- **Faults, filter read-back** (the tail of `SetEventFilters` and all of
`QueryEventFilters`) — against any responder: the result is `None` as soon as
one part is not answered cleanly, otherwise the value is assembled from exactly
the bytes the unit sent for the parts that are read. -/
theorem faults_benign_filter (a i : Nat) (m h : Bool) (md0 hi0 : Nat) (tr : List (Cmd × Resp))
    (out : PyRes (Option Nat)) (ho : Out (readFilter a i m h md0 hi0) tr out) :
    (out = .ok none ∧ ¬ AllBytes tr) ∨
    (∃ lo md hi, out = .ok (some (lo + 256 * md + 65536 * hi)) ∧ AllBytes tr ∧
      (.queryEventFilterL a i, .byte lo) ∈ tr ∧
      (if m then (.queryEventFilterM a i, .byte md) ∈ tr else md = md0) ∧
      (if h then (.queryEventFilterH a i, .byte hi) ∈ tr else hi = hi0)) :=
  readFilter_faults a i m h md0 hi0 tr out ho

/-! ## the defect repaired by the `fix:` commit (F5), and non-vacuity -/

def witnessInst : Instance :=
  { itype := 1, enabled := true, scheme := 0, filter := 0, filterWidth := 24,
    resolution := 10, value := fun _ => 0x2A5, latch := [] }

/-- a one-instance device with a 24-bit filter and stale DTR2 = 0x12 -/
def witnessDev : Device :=
  { status := 0, dtr0 := 0x77, dtr1 := 0x66, dtr2 := 0x12, instances := [witnessInst] }

def witnessBus : Bus :=
  { clock := 0, quiescent := false, devs := fun a => if a = 1 then some witnessDev else none }

theorem witness_has : witnessBus.Has 1 0 witnessDev witnessInst :=
  ⟨by simp [witnessBus], by simp [witnessDev]⟩

/-- F5 witness: the code *before* the repair leaves the stale DTR2 in the top
byte (0x12CDEF instead of 0xABCDEF) and reports that back. -/
theorem setFilter_old_code_wrong :
    ((setEventFiltersOld 1 0 (some 24) 0xABCDEF).run Bus.step witnessBus).1 = .ok (some 0x12CDEF) := by
  simp [setEventFiltersOld, setEventFiltersG, readFilter, addrOK, witnessBus, witnessDev, witnessInst,
    Bus.step, Bus.exec, Bus.mapDevs, Bus.setInst, Bus.instQuery]

/-- the repaired code on the same input -/
example : ((setEventFilters 1 0 (some 24) 0xABCDEF).run Bus.step witnessBus).1 = .ok (some 0xABCDEF) :=
  (setFilter_spec witnessBus 1 0 _ _ witness_has rfl 24 (by simp) rfl 0xABCDEF (by decide)).1

/-- a 10-bit value comes back intact -/
example : ((queryInputValue 1 0 none).run Bus.step witnessBus).1 = .ok 0x2A5 :=
  inputValue_spec_queried witnessBus 1 0 _ _ witness_has rfl (by simp [witnessInst])
    (by simp [witnessInst])

/-- discovery on the witness bus records instance (1, 0) with type 1 -/
example : lookupLog (expectedLog witnessBus.devs [0, 1, 2]) (fun _ => none) (1, 0) = some 1 := by
  rw [autodiscover_mapping]
  simp [expectedType, witnessBus, witnessDev, witnessInst, unhealthy]

end DaliVerif.Props.C13
