import DaliVerif.Proofs.Construct
import DaliVerif.Spec.IEC62386
import DaliVerif.Gen.Commands
import DaliVerif.Props.C02
/-!
# C03 — emitted frames and command flags conform to the IEC 62386 tables
-/
set_option linter.unusedSimpArgs false
namespace DaliVerif.Props.C03
open DaliVerif Cmd Spec

/-- kind of answer as the standard's tables distinguish it: none / yes-no / 8-bit value -/
def answerClass (k : String) : String := if k = "" then "" else if k = "yesno" then "yesno" else "value"

/-- what the standard's tables say about one command -/
structure TableRow where
  qualname : String
  framesize : Nat
  family : String
  code : Nat
  addrByte : Nat
  instByte : Nat
  hasparam : Bool
  dt : Nat
  sendtwice : Bool
  answer : String
  deriving DecidableEq, Repr

def projGen (r : ClassRow) : TableRow :=
  ⟨r.qualname, r.framesize, r.family, r.code, r.addrByte, r.instByte, r.hasparam, r.dt, r.sendtwice,
   answerClass r.responseKind⟩

def projSpec (r : SpecRow) : TableRow :=
  ⟨r.qualname, r.framesize, r.family, r.code, r.addrByte, r.instByte, r.hasparam, r.dt, r.sendtwice,
   r.answer⟩

def genRows : List TableRow := Gen.classRows.map projGen
def specRows : List TableRow := Spec.commandRows.map projSpec

/-- walk the library's rows against the standard's rows (both in name order):
equal rows are paired off, a library row that is not the next standard row is
set aside; `none` if a standard row finds no equal library row -/
def pairOff : List TableRow → List TableRow → Option (List TableRow)
  | gs, [] => some gs
  | [], _ :: _ => none
  | g :: gs, s :: ss => if g = s then pairOff gs ss else (pairOff gs (s :: ss)).map (g :: ·)

theorem pairOff_sound : ∀ (gs ss o : List TableRow), pairOff gs ss = some o →
    (∀ r ∈ ss, r ∈ gs) ∧ (∀ x ∈ gs, x ∈ ss ∨ x ∈ o)
  | gs, [], o, h => by
      simp only [pairOff] at h
      injection h with h; subst h
      exact ⟨by simp, fun x hx => Or.inr hx⟩
  | [], _ :: _, o, h => by simp [pairOff] at h
  | g :: gs, s :: ss, o, h => by
      simp only [pairOff] at h
      by_cases e : g = s
      · simp only [e, if_true] at h
        have ih := pairOff_sound gs ss o h
        subst e
        refine ⟨fun r hr => ?_, fun x hx => ?_⟩
        · rcases List.mem_cons.mp hr with rfl | hr
          · exact List.mem_cons_self
          · exact List.mem_cons_of_mem _ (ih.1 r hr)
        · rcases List.mem_cons.mp hx with rfl | hx
          · exact Or.inl List.mem_cons_self
          · rcases ih.2 x hx with h' | h'
            · exact Or.inl (List.mem_cons_of_mem _ h')
            · exact Or.inr h'
      · simp only [e, if_false] at h
        cases hp : pairOff gs (s :: ss) with
        | none => simp [hp] at h
        | some o' =>
          simp only [hp, Option.map] at h
          injection h with h; subst h
          have ih := pairOff_sound gs (s :: ss) o' hp
          refine ⟨fun r hr => List.mem_cons_of_mem _ (ih.1 r hr), fun x hx => ?_⟩
          rcases List.mem_cons.mp hx with rfl | hx
          · exact Or.inr List.mem_cons_self
          · rcases ih.2 x hx with h' | h'
            · exact Or.inl h'
            · exact Or.inr (List.mem_cons_of_mem _ h')

/-- the library's classes that the transcribed tables do not name (none on the pinned tree) -/
def outsideTables : List TableRow := (pairOff genRows specRows).getD []

/-- **The command tables** — for every concrete command class of the current
tree (regenerated on every run) that the standard's tables name: opcode /
address byte / instance byte, the parameter nibble flag, the frame format, the
send-twice flag, whether an answer is expected and whether it is yes/no or an
8-bit value, and the device type to be enabled first all equal the
independently transcribed rows of IEC 62386 parts 102, 103, 202, 205, 206, 207,
209, 301, 303, 304 — and no row of the standard's tables is missing from the
library.  (A class the transcribed tables do not name cannot be judged by them;
the check lists such classes, `outsideTables`, in its evidence.) -/
theorem table_conforms :
    (∀ r ∈ specRows, r ∈ genRows) ∧
    (∀ g ∈ genRows, (∃ r ∈ specRows, r.qualname = g.qualname) → g ∈ specRows) := by
  have h1 : (pairOff genRows specRows).isSome = true := by decide +kernel
  have h2 : outsideTables.all (fun g => !(specRows.any (fun r => r.qualname == g.qualname))) = true := by
    decide +kernel
  obtain ⟨o, ho⟩ := Option.isSome_iff_exists.mp h1
  have hs := pairOff_sound _ _ o ho
  have ho' : outsideTables = o := by simp [outsideTables, ho]
  refine ⟨hs.1, fun g hg ⟨r, hr, hn⟩ => ?_⟩
  rcases hs.2 g hg with h | h
  · exact h
  · exfalso
    rw [ho'] at h2
    have := List.all_eq_true.mp h2 g h
    simp only [Bool.not_eq_true', List.any_eq_false] at this
    have := this r hr
    simp [hn] at this

/-- is a class row registered in the decode registry under the key the standard's opcode implies? -/
def rowRegistered (T : Tables) (r : ClassRow) : Bool :=
  if r.family = "std" then
    (List.range (if r.hasparam then 16 else 1)).all fun p =>
      (lookup T.stdOpcodes (r.dt, r.code + p)).any fun c =>
        c.name == r.qualname && c.cmdval == r.code && c.hasparam == r.hasparam && c.dt == r.dt
  else if r.family = "special" ∨ r.family = "shortSpecial" ∨ r.family = "initialise" then
    (lookup T.specialOpcodes r.code).any fun c =>
      c.name == r.qualname && c.cmdval == r.code && c.hasparam == r.hasparam
  else if r.family = "devStd" then
    (lookup T.devOpcodes r.code).any fun c => c.name == r.qualname && c.opcode == r.code
  else if r.family = "devInst" then
    (lookup T.instOpcodes r.code).any fun c => c.name == r.qualname && c.opcode == r.code
  else if r.family = "devSpecial0" ∨ r.family = "devSpecial1" ∨ r.family = "devSpecial2" then
    T.devCommands.any fun e =>
      match e with
      | .special c => c.name == r.qualname && c.addr == r.addrByte &&
          (r.family == "devSpecial2" || c.inst == r.instByte)
      | _ => false
  else true

/-- **rows and registries agree**: every class row is found by decoding under
exactly the opcode its row states (so a frame built from the standard's table
decodes to the command of that name, via `frame_is_standard`). -/
theorem rows_registered : Gen.classRows.all (rowRegistered Gen.tables) = true := by
  decide +kernel

/-- **The frame on the wire is the standard's frame** — for every legal object
of every class: the constructor's frame is bit-for-bit the layout the standard
assigns (`frameOf`: `YAAAAAAS`/`100GGGGS`/`1111111S`/`1111110S` address byte with
selector bit then opcode|parameter or level; special command byte then data;
24-bit address byte with bit 16 = 1, instance byte, opcode; the special device
triples; event scheme bits, five-bit fields and ten information bits), and
conversely that frame decodes to the same command. -/
theorem frame_is_standard (T : Tables) (hT : TableOK2 T) (c : Cmd) (h : WF T c) :
    encode c = .ok ⟨bitsOf c, frameOf c⟩ ∧
    decode T (bitsOf c) (frameOf c) (dtOf c) (mapFor c) = c :=
  frame_standard T hT c h

theorem frame_is_standard_gen (c : Cmd) (h : WF Gen.tables c) :
    encode c = .ok ⟨bitsOf c, frameOf c⟩ ∧
    decode Gen.tables (bitsOf c) (frameOf c) (dtOf c) (mapFor c) = c :=
  frame_standard Gen.tables C02.tables_ok2 c h

/-- **Application-extended commands carry their device type** — every row of
parts 202/205/206/207/209 has device type `part − 201` (≠ 0: part 202 is device type 1, …, part 209 device type 8), every other gear
row has device type 0; by `table_conforms` the same holds of the library. -/
theorem extended_commands_carry_devicetype :
    Spec.commandRows.all (fun r =>
      if r.part = 202 ∨ r.part = 205 ∨ r.part = 206 ∨ r.part = 207 ∨ r.part = 209
      then r.dt == r.part - 201 && r.dt != 0 else r.dt == 0) = true := by
  decide +kernel

/-- the address byte field of each address kind is the standard's pattern -/
theorem address_patterns :
    (∀ s, Addr.addrByte (.gearShort s) = s) ∧ (∀ g, Addr.addrByte (.gearGroup g) = 0b1000000 + g) ∧
    Addr.addrByte .gearBroadcast = 0b1111111 ∧ Addr.addrByte .gearUnaddressed = 0b1111110 ∧
    (∀ s, Addr.addrByte (.deviceShort s) = s) ∧ (∀ g, Addr.addrByte (.deviceGroup g) = 0b1000000 + g) ∧
    Addr.addrByte .deviceBroadcast = 0b1111111 ∧ Addr.addrByte .deviceUnaddressed = 0b1111110 := by
  refine ⟨fun _ => rfl, fun _ => rfl, rfl, rfl, fun _ => rfl, fun _ => rfl, rfl, rfl⟩

/-! ### non-vacuity -/
example : frameOf (.standard ⟨"gear.general.GoToScene", 16, true, 0, true⟩ (.gearGroup 3) 7) = 0x8717 := by
  decide
example : frameOf (.devSpecial ⟨"device.general.DTR2DTR1", 201, 999, .two⟩ 0x12 0x34) = 0xC91234 := by
  decide

end DaliVerif.Props.C03
