import DaliVerif.Proofs.WireEnc
import DaliVerif.Proofs.WireEnc2
import DaliVerif.Proofs.WireEnc2Recv
/-!
# C18 — bytes exchanged with each gateway follow that gateway's wire format

Property theorems only.  `Wire.<Driver>` are the models of the drivers' encoders
and decoders (`Model/Wire.lean`, tied to the code by the correspondence suite),
`Spec.Gateways` the wire formats (independent / pinned as documented there),
`Gen.DriverConsts` the constants regenerated from the tree.  `expect e fmt` is
"the packet the format prescribes, or exception `e` when the gateway cannot carry
the width": every `…_encode_conforms` therefore states conformance **and**
refusal for every width at once; `…_refuses` spells the refusal out.
-/
namespace DaliVerif.Props.C18
open DaliVerif Wire Spec.Gateways Proofs.WireEnc Proofs.WireEnc2
open Gen.DriverConsts

/-- the constants of the tree are the ones the formats were written with -/
theorem gen_consts :
    tridonic_CMD_SEND = 0x12 ∧ tridonic_SEND_CTRL_SENDTWICE = 0x20 ∧ tridonic_SEND_MODE_DALI16 = 3 ∧
    tridonic_SEND_MODE_DALI24 = 6 ∧ tridonic_SEND_MODE_DALI8 = 2 ∧ tridonic_cmdtmpl_size = 64 ∧
    tridonic_resptmpl_size = 64 ∧ tridonic_cmdtmpl_format = ">4B4s3B53x" ∧ tridonic_resptmpl_format = ">BB4sHB55x" ∧
    tridonic_MODE_INFO = 0x01 ∧ tridonic_MODE_OBSERVE = 0x11 ∧ tridonic_MODE_RESPONSE = 0x12 ∧
    tridonic_RESPONSE_NO_FRAME = 0x71 ∧ tridonic_RESPONSE_FRAME_DALI8 = 0x72 ∧ tridonic_RESPONSE_FRAME_DALI16 = 0x73 ∧
    tridonic_RESPONSE_FRAME_DALI24 = 0x76 ∧ tridonic_RESPONSE_INFO = 0x77 ∧ tridonic_BUS_STATUS_FRAMING_ERROR = 3 ∧
    hidhasseb_INVALID_ANSWER = 3 ∧ hidhasseb_NO_ANSWER = 1 ∧ hidhasseb_NO_DATA_AVAILABLE = 0 ∧ hidhasseb_OK = 2 ∧
    hidhasseb_cmdtmpl_size = 2 ∧
    lubaCmd_ADD_DALI_FRAME_TO_TX_CMD = 0x32 ∧ luba_MAX_LEN = 24 ∧
    sci_CONTROL_ME_MASK = 0x80 ∧ sci_CONTROL_IDENTIFY_MASK = 0x40 ∧ sci_CONTROL_ECHO_MASK = 0x20 ∧
    sci_CONTROL_SEND_TWICE_MASK = 0x10 ∧ sci_CONTROL_MODE_MASK = 0x0F ∧
    sciCode_SEND_DALI_8 = 2 ∧ sciCode_SEND_DALI_16 = 3 ∧ sciCode_SEND_DALI2_24 = 8 ∧
    atxPrefixTable = [(8, 106), (16, 104), (24, 108), (25, 109)] ∧
    legacyTridonic_DALI_USB_DIRECTION_DALI = 0x11 ∧ legacyTridonic_DALI_USB_DIRECTION_USB = 0x12 ∧
    legacyTridonic_DALI_USB_TYPE_16BIT = 3 ∧ legacyTridonic_DALI_USB_TYPE_NO_RESPONSE = 0x71 ∧
    legacyTridonic_DALI_USB_TYPE_RESPONSE = 0x72 ∧ legacyTridonic_DALI_USB_TYPE_COMPLETE = 0x73 ∧
    legacyTridonic_DALI_USB_TYPE_BROADCAST = 0x74 ∧ legacyTridonic_first_sn = 1 ∧
    legacyHasseb_HASSEB_DALI_FRAME = 7 ∧ legacyHasseb_first_sn = 0 ∧ unipi_DA_OPT_TWICE = 8 := by decide

/-! ## encode: conformance and refusal, every width -/

theorem tridonic_encode_conforms (seq : Nat) (c : Cmd) (hd : c.frame.data < 2 ^ c.frame.bits) :
    Tridonic.encode seq c =
      expect .UnsupportedFrameTypeError (tridonicSend seq c.frame.bits c.frame.data c.sendtwice) :=
  tridonic_conforms seq c hd
theorem hidhasseb_encode_conforms (c : Cmd) (hd : c.frame.data < 2 ^ c.frame.bits) :
    HidHasseb.encode c = expect .UnsupportedFrameTypeError (hassebWrites c.frame.bits c.frame.data c.sendtwice) :=
  hidhasseb_conforms c hd
theorem luba_encode_conforms (c : Cmd) :
    Luba.encode c = expect .ValueError (lubaSend c.frame.bits c.frame.data (lubaPriorityRule c) c.sendtwice) :=
  luba_conforms c
theorem sci_encode_conforms (c : Cmd) :
    Sci.encode c = expect .ValueError (sciSend c.frame.bits c.frame.data c.sendtwice) := sci_conforms c
theorem daliserver_encode_conforms (c : Cmd) :
    DaliServer.encode c = expect .UnsupportedFrameTypeError (daliserverSends c.frame.bits c.frame.data c.sendtwice) :=
  daliserver_conforms c
theorem atx_encode_conforms (c : Cmd) :
    Atx.encode c = expect .KeyError (atxLine c.frame.bits c.frame.data c.sendtwice) := atx_conforms c
theorem ltridonic_encode_conforms (sn : Nat) (c : Cmd) :
    LegacyTridonic.encode sn c = expect .ValueError
      (if c.frame.bits = 16 then tridonicSend sn 16 c.frame.data c.sendtwice else none) := ltridonic_conforms sn c
theorem lhasseb_encode_conforms (sn : Nat) (c : Cmd) :
    LegacyHasseb.encode sn c = expect .ValueError
      ((legacyHassebPacket (LegacyHasseb.snNext sn) c.frame.bits c.frame.data c.sendtwice c.isQuery).map
        (fun p => (p, LegacyHasseb.snNext sn))) := lhasseb_conforms sn c
theorem unipi_encode_conforms (c : Cmd) :
    Unipi.encode c = expect .ValueError (unipiRegs c.frame.bits c.frame.data c.sendtwice) := unipi_conforms c

/-- clause "refuses command frames of a length the gateway cannot carry" (K4: false of daliserver,
legacy hasseb, LUBA and SCI before the repairs) -/
theorem tridonic_refuses (seq : Nat) (c : Cmd) (hd : c.frame.data < 2 ^ c.frame.bits)
    (h : c.frame.bits ≠ 16 ∧ c.frame.bits ≠ 24) : Tridonic.encode seq c = .error .UnsupportedFrameTypeError := by
  rw [tridonic_conforms seq c hd]; simp [tridonicSend, expect, h.1, h.2]
theorem hidhasseb_refuses (c : Cmd) (hd : c.frame.data < 2 ^ c.frame.bits) (h : c.frame.bits ≠ 16) :
    HidHasseb.encode c = .error .UnsupportedFrameTypeError := by
  rw [hidhasseb_conforms c hd]; simp [hassebWrites, expect, h]
theorem luba_refuses (c : Cmd) (h : c.frame.bits ≠ 16 ∧ c.frame.bits ≠ 24) : Luba.encode c = .error .ValueError := by
  rw [luba_conforms c]; simp [lubaSend, expect, h.1, h.2]
theorem sci_refuses (c : Cmd) (h : c.frame.bits ≠ 8 ∧ c.frame.bits ≠ 16 ∧ c.frame.bits ≠ 24) :
    Sci.encode c = .error .ValueError := by
  rw [sci_conforms c]; simp [sciSend, expect, h.1, h.2.1, h.2.2]
theorem daliserver_refuses (c : Cmd) (h : c.frame.bits ≠ 16) :
    DaliServer.encode c = .error .UnsupportedFrameTypeError := by
  rw [daliserver_conforms c]; simp [daliserverSends, expect, h]
theorem atx_refuses (c : Cmd) (h : c.frame.bits ≠ 8 ∧ c.frame.bits ≠ 16 ∧ c.frame.bits ≠ 24 ∧ c.frame.bits ≠ 25) :
    Atx.encode c = .error .KeyError := by
  rw [atx_conforms c]; simp [atxLine, expect, h.1, h.2.1, h.2.2.1, h.2.2.2]
theorem ltridonic_refuses (sn : Nat) (c : Cmd) (h : c.frame.bits ≠ 16) :
    LegacyTridonic.encode sn c = .error .ValueError := by
  rw [ltridonic_conforms sn c]; simp [expect, h]
theorem lhasseb_refuses (sn : Nat) (c : Cmd) (h : c.frame.bits ≠ 16) :
    LegacyHasseb.encode sn c = .error .ValueError := by
  rw [lhasseb_conforms sn c]; simp [legacyHassebPacket, expect, h]
theorem unipi_refuses (c : Cmd) (h : c.frame.bits ≠ 16 ∧ c.frame.bits ≠ 24) : Unipi.encode c = .error .ValueError := by
  rw [unipi_conforms c]; simp [unipiRegs, expect, h.1, h.2]

/-! ## format facts: fixed length, checksum, send-twice (about the format the models were proved equal to) -/

/-- padding to the fixed packet size -/
theorem tridonic_length_fixed (seq bits data : Nat) (tw : Bool) (p : List Nat)
    (h : tridonicSend seq bits data tw = some p) : p.length = tridonic_cmdtmpl_size := by
  by_cases h16 : bits = 16
  · subst h16; simp [tridonicSend] at h; subst h; simp [zeros, tridonic_cmdtmpl_size]
  · by_cases h24 : bits = 24
    · subst h24; simp [tridonicSend] at h; subst h; simp [zeros, tridonic_cmdtmpl_size]
    · simp [tridonicSend, h16, h24] at h
theorem luba_length_fixed (bits data prio : Nat) (tw : Bool) (p : List Nat)
    (h : lubaSend bits data prio tw = some p) : p.length = 11 := by
  by_cases h16 : bits = 16
  · subst h16; simp [lubaSend] at h; subst h; simp
  · by_cases h24 : bits = 24
    · subst h24; simp [lubaSend] at h; subst h; simp
    · simp [lubaSend, h16, h24] at h
theorem sci_length_fixed (bits data : Nat) (tw : Bool) (p : List Nat)
    (h : sciSend bits data tw = some p) : p.length = sci_MAX_LEN := by
  by_cases h8 : bits = 8
  · subst h8; simp [sciSend] at h; subst h; simp [sci_MAX_LEN]
  · by_cases h16 : bits = 16
    · subst h16; simp [sciSend] at h; subst h; simp [sci_MAX_LEN]
    · by_cases h24 : bits = 24
      · subst h24; simp [sciSend] at h; subst h; simp [sci_MAX_LEN]
      · simp [sciSend, h8, h16, h24] at h

/-- hid.hasseb: every write is the 2-byte report of `_cmdtmpl` -/
theorem hidhasseb_length_fixed (c : Cmd) (ws : List (List Nat)) (h : HidHasseb.encode c = .ok ws) :
    ∀ w ∈ ws, w.length = hidhasseb_cmdtmpl_size := by
  unfold HidHasseb.encode at h
  split at h
  · cases h
  · split at h
    · cases h
    · rename_i fr heq
      obtain ⟨rfl, _⟩ := packLenNat_ok _ _ _ heq
      injection h with h; subst h
      intro w hw
      rw [List.eq_of_mem_replicate hw, Frame.toBytesBE_length]; rfl
/-- daliserver: every message is the fixed 4 bytes `02 00 addr cmd` -/
theorem daliserver_length_fixed (c : Cmd) (ws : List (List Nat)) (h : DaliServer.encode c = .ok ws) :
    ∀ w ∈ ws, w.length = 4 := by
  unfold DaliServer.encode at h
  split at h
  · cases h
  · rename_i hb
    simp only at h; injection h with h; subst h
    intro w hw
    have hb : c.frame.bits = 16 := by simpa using hb
    rw [List.eq_of_mem_replicate hw]
    simp [bytesOf_length, nbytes, hb]
/-- legacy Tridonic: the fixed 64-byte report -/
theorem ltridonic_length_fixed (sn : Nat) (c : Cmd) (p : List Nat) (h : LegacyTridonic.encode sn c = .ok p) :
    p.length = 64 := by
  unfold LegacyTridonic.encode at h
  split at h
  · injection h with h; subst h; simp
  · cases h
/-- legacy hasseb: the fixed 10-byte report -/
theorem lhasseb_length_fixed (sn : Nat) (c : Cmd) (p : List Nat) (sn' : Nat)
    (h : LegacyHasseb.encode sn c = .ok (p, sn')) : p.length = 10 := by
  unfold LegacyHasseb.encode at h
  split at h
  · cases h
  · injection h with h; injection h with h1 h2; subst h1; simp
/-- ATX hat: one letter, **exactly two hex digits per frame byte**, newline (`nbytes bits` = ⌈bits/8⌉) -/
theorem atx_length_exact (c : Cmd) (p : List Nat) (h : Atx.encode c = .ok p) :
    p.length = 1 + 2 * nbytes c.frame.bits + 1 := by
  obtain ⟨pfx, rfl, _, _⟩ := atx_shape c p h
  simp [hexText_length, bytesOf_length]; omega

/-! ### valid checksum — LUBA: starts with 'Y', the length byte fits, the xor of everything after 'Y' (checksum
included) is 0; SCI: five bytes whose xor is 0.  For every command the encoder accepts (model) and for every
packet of the format, every frame, priority and flag (no enumeration: xor-fold lemmas in `Proofs/WireEnc2`). -/

/-- clause "a valid checksum": every packet the LUBA encoder hands to the transport passes the gateway's check -/
theorem luba_checksum_valid (c : Cmd) (p : List Nat) (h : Luba.encode c = .ok p) : lubaCheck p = true :=
  luba_checksum_model c p h
/-- the same for the SCI encoder -/
theorem sci_checksum_valid (c : Cmd) (p : List Nat) (h : Sci.encode c = .ok p) : sciCheck p = true :=
  sci_checksum_model c p h
/-- the explicit xor chain in the LUBA format is a valid checksum, for every data, priority and flag value -/
theorem luba_format_checksum_valid (bits data prio : Nat) (tw : Bool) (p : List Nat)
    (h : lubaSend bits data prio tw = some p) : lubaCheck p = true := by
  by_cases h16 : bits = 16
  · subst h16
    have e : lubaSend 16 data prio tw = some ([0x59] ++
        [0x32, 7, 0, 16, prio + (if tw then 128 else 0), data / 256 % 256, data % 256, 0, 0] ++
        [xorAll [0x32, 7, 0, 16, prio + (if tw then 128 else 0), data / 256 % 256, data % 256, 0, 0]]) := by
      rw [xorAll9]; rfl
    rw [e] at h; injection h with h; subst h; exact lubaCheck_of_body _ (by simp)
  · by_cases h24 : bits = 24
    · subst h24
      have e : lubaSend 24 data prio tw = some ([0x59] ++
          [0x32, 7, 0, 24, prio + (if tw then 128 else 0), data / 65536 % 256, data / 256 % 256, data % 256, 0] ++
          [xorAll [0x32, 7, 0, 24, prio + (if tw then 128 else 0), data / 65536 % 256, data / 256 % 256, data % 256, 0]]) := by
        rw [xorAll9]; rfl
      rw [e] at h; injection h with h; subst h; exact lubaCheck_of_body _ (by simp)
    · simp [lubaSend, h16, h24] at h
/-- the explicit xor chain in the SCI format is a valid checksum -/
theorem sci_format_checksum_valid (bits data : Nat) (tw : Bool) (p : List Nat)
    (h : sciSend bits data tw = some p) : sciCheck p = true := by
  by_cases h8 : bits = 8
  · subst h8
    have e : sciSend 8 data tw = some ([0x80 + 0x20 + (if tw then 0x10 else 0) + 2, data % 256, 0, 0] ++
        [xorAll [0x80 + 0x20 + (if tw then 0x10 else 0) + 2, data % 256, 0, 0]]) := by rw [xorAll4]; rfl
    rw [e] at h; injection h with h; subst h; exact sciCheck_of_body _ (by simp)
  · by_cases h16 : bits = 16
    · subst h16
      have e : sciSend 16 data tw = some ([0x80 + 0x20 + (if tw then 0x10 else 0) + 3, data / 256 % 256, data % 256, 0] ++
          [xorAll [0x80 + 0x20 + (if tw then 0x10 else 0) + 3, data / 256 % 256, data % 256, 0]]) := by rw [xorAll4]; rfl
      rw [e] at h; injection h with h; subst h; exact sciCheck_of_body _ (by simp)
    · by_cases h24 : bits = 24
      · subst h24
        have e : sciSend 24 data tw = some ([0x80 + 0x20 + (if tw then 0x10 else 0) + 8, data / 65536 % 256,
            data / 256 % 256, data % 256] ++
            [xorAll [0x80 + 0x20 + (if tw then 0x10 else 0) + 8, data / 65536 % 256, data / 256 % 256, data % 256]]) := by
          rw [xorAll4]; rfl
        rw [e] at h; injection h with h; subst h; exact sciCheck_of_body _ (by simp)
      · simp [sciSend, h8, h16, h24] at h
example : lubaCheck [0x59, 0x32, 7, 0, 16, 0x85, 0xFE, 0x80, 0, 0, 0xDE] = true := by decide
example : lubaCheck [0x59, 0x32, 7, 0, 16, 0x85, 0xFE, 0x80, 0, 0, 0xDF] = false := by decide
example : sciCheck [0xA3, 0xFE, 0x80, 0, 0xDD] = true := by decide

/-- "the send-twice flag exactly when the command requires it" -/
theorem tridonic_twice_iff (seq bits data : Nat) (tw : Bool) (p : List Nat)
    (h : tridonicSend seq bits data tw = some p) : tridonicTwiceBit p = tw := by
  by_cases h16 : bits = 16
  · subst h16; simp [tridonicSend] at h; subst h; cases tw <;> simp [tridonicTwiceBit]
  · by_cases h24 : bits = 24
    · subst h24; simp [tridonicSend] at h; subst h; cases tw <;> simp [tridonicTwiceBit]
    · simp [tridonicSend, h16, h24] at h
theorem hidhasseb_twice_iff (bits data : Nat) (tw : Bool) (ws : List (List Nat))
    (h : hassebWrites bits data tw = some ws) : ws.length = (if tw then 2 else 1) := by
  by_cases h16 : bits = 16
  · subst h16; simp [hassebWrites] at h; subst h; simp
  · simp [hassebWrites, h16] at h
theorem daliserver_twice_iff (bits data : Nat) (tw : Bool) (ws : List (List Nat))
    (h : daliserverSends bits data tw = some ws) : ws.length = (if tw then 2 else 1) := by
  by_cases h16 : bits = 16
  · subst h16; simp [daliserverSends] at h; subst h; simp
  · simp [daliserverSends, h16] at h

/-- LUBA encoder: bit 7 of the mode byte is set exactly when the command is send-twice (every command) -/
theorem luba_twice_iff (c : Cmd) (p : List Nat) (h : Luba.encode c = .ok p) : lubaTwiceBit p = c.sendtwice := by
  unfold Luba.encode at h
  simp only at h
  split at h
  · cases h
  · injection h with h; subst h
    obtain ⟨f, tw, q, s, dp⟩ := c
    simp only [lubaTwiceBit, Luba.priority, List.cons_append, List.nil_append, List.getD_cons_zero, List.getD_cons_succ]
    cases tw <;> cases q <;> cases s <;> cases dp <;> simp
/-- LUBA format, any priority that fits the priority field -/
theorem luba_format_twice_iff (bits data prio : Nat) (tw : Bool) (p : List Nat) (hp : prio < 128)
    (h : lubaSend bits data prio tw = some p) : lubaTwiceBit p = tw := by
  have ha := and128 prio hp
  by_cases h16 : bits = 16
  · subst h16; simp [lubaSend] at h; subst h; cases tw <;> simp [lubaTwiceBit, ha.1, ha.2]
  · by_cases h24 : bits = 24
    · subst h24; simp [lubaSend] at h; subst h; cases tw <;> simp [lubaTwiceBit, ha.1, ha.2]
    · simp [lubaSend, h16, h24] at h
/-- SCI format: control bit 0x10 -/
theorem sci_format_twice_iff (bits data : Nat) (tw : Bool) (p : List Nat)
    (h : sciSend bits data tw = some p) : sciTwiceBit p = tw := by
  by_cases h8 : bits = 8
  · subst h8; simp [sciSend] at h; subst h; cases tw <;> simp [sciTwiceBit]
  · by_cases h16 : bits = 16
    · subst h16; simp [sciSend] at h; subst h; cases tw <;> simp [sciTwiceBit]
    · by_cases h24 : bits = 24
      · subst h24; simp [sciSend] at h; subst h; cases tw <;> simp [sciTwiceBit]
      · simp [sciSend, h8, h16, h24] at h
/-- SCI encoder -/
theorem sci_twice_iff (c : Cmd) (p : List Nat) (h : Sci.encode c = .ok p) : sciTwiceBit p = c.sendtwice := by
  rw [sci_conforms c] at h
  cases hs : sciSend c.frame.bits c.frame.data c.sendtwice with
  | none => rw [hs] at h; cases h
  | some q => rw [hs] at h; injection h with h; subst h; exact sci_format_twice_iff _ _ _ _ hs
/-- ATX hat: the line starts with the send-twice letter `t` exactly for a send-twice 16-bit command (the hat has
no send-twice letter for the other widths; the driver repeats those itself) -/
theorem atx_twice_iff (c : Cmd) (p : List Nat) (h : Atx.encode c = .ok p) :
    p.head? = some 116 ↔ (c.sendtwice = true ∧ c.frame.bits = 16) := by
  obtain ⟨pfx, rfl, ht, _⟩ := atx_shape c p h
  simpa using ht
/-- legacy Tridonic: control bit 0x20 (false of the tree before `f0f9ae5`, which ignored `sendtwice`) -/
theorem ltridonic_twice_iff (sn : Nat) (c : Cmd) (p : List Nat) (h : LegacyTridonic.encode sn c = .ok p) :
    tridonicTwiceBit p = c.sendtwice := by
  unfold LegacyTridonic.encode at h
  split at h
  · injection h with h; subst h
    cases c.sendtwice <;> simp [tridonicTwiceBit]
  · cases h
/-- legacy hasseb: the send-twice byte (delay in ms) is 10 for a send-twice command and 0 otherwise -/
theorem lhasseb_twice_iff (sn : Nat) (c : Cmd) (p : List Nat) (sn' : Nat) (h : LegacyHasseb.encode sn c = .ok (p, sn')) :
    p.getD 6 0 = (if c.sendtwice then 10 else 0) := by
  unfold LegacyHasseb.encode at h
  split at h
  · cases h
  · injection h with h; injection h with h1 h2; subst h1
    simp
/-- UniPi: `DA_OPT_TWICE` in the option byte (high byte of the first register) -/
theorem unipi_twice_iff (c : Cmd) (r0 r1 : Nat) (h : Unipi.encode c = .ok (r0, r1)) :
    ((r0 >>> 8) &&& unipi_DA_OPT_TWICE != 0) = c.sendtwice := by
  rw [unipi_conforms c] at h
  obtain ⟨⟨bits, data⟩, tw, q, s, dp⟩ := c
  simp only at h ⊢
  by_cases h16 : bits = 16
  · subst h16; simp [unipiRegs, expect] at h
    obtain ⟨rfl, rfl⟩ := h
    cases tw <;> simp [unipi_DA_OPT_TWICE, Nat.shiftRight_eq_div_pow]
  · by_cases h24 : bits = 24
    · subst h24; simp [unipiRegs, expect] at h
      obtain ⟨rfl, rfl⟩ := h
      have e3 : (768 + data / 65536 % 256) >>> 8 = 3 := by rw [Nat.shiftRight_eq_div_pow]; omega
      have e11 : (2816 + data / 65536 % 256) >>> 8 = 11 := by rw [Nat.shiftRight_eq_div_pow]; omega
      cases tw <;> simp [unipi_DA_OPT_TWICE, e3, e11]
    · simp [unipiRegs, expect, h16, h24] at h

/-! ## sequence numbers: in range, never repeated immediately — for every number of sends -/

theorem tridonic_seq_range (start : Nat) (h : 1 ≤ start ∧ start ≤ 255) (n : Nat) :
    1 ≤ Tridonic.seqNth start n ∧ Tridonic.seqNth start n ≤ 255 := tri_seq_range start h n
theorem tridonic_seq_no_immediate_repeat (start : Nat) (h : 1 ≤ start ∧ start ≤ 255) (n : Nat) :
    Tridonic.seqNth start (n + 1) ≠ Tridonic.seqNth start n := tri_seq_norepeat start h n
theorem ltridonic_seq_range (n : Nat) : 1 ≤ LegacyTridonic.snNth n ∧ LegacyTridonic.snNth n ≤ 255 :=
  ltri_state_range n
/-- false of the code before the F10 repair (…, 255, 1, 1, 2) -/
theorem ltridonic_seq_no_immediate_repeat (n : Nat) : LegacyTridonic.snNth (n + 1) ≠ LegacyTridonic.snNth n :=
  ltri_seq_norepeat n
theorem lhasseb_seq_range (n : Nat) : 1 ≤ LegacyHasseb.snNth n ∧ LegacyHasseb.snNth n ≤ 255 := lhas_seq_range n
theorem lhasseb_seq_no_immediate_repeat (n : Nat) : LegacyHasseb.snNth (n + 1) ≠ LegacyHasseb.snNth n :=
  lhas_seq_norepeat n

/-! ## decode -/

theorem hidhasseb_decode_wellformed (status byte : Nat) :
    HidHasseb.decode status byte = hassebMeaning status byte := by
  simp only [HidHasseb.decode, hassebMeaning, hidhasseb_NO_DATA_AVAILABLE, hidhasseb_NO_ANSWER, hidhasseb_OK,
    hidhasseb_INVALID_ANSWER, beq_iff_eq]

theorem daliserver_decode_wellformed (q : Bool) (status rval : Nat) :
    DaliServer.decode q status rval = daliserverMeaning q status rval := by
  cases q <;> simp [DaliServer.decode, daliserverMeaning]

/-- a backward-frame register pair carries an 8-bit value, a forward-frame pair a 16-bit one -/
theorem unipi_decode_wellformed (r0 r1 : Nat) (h : (r0 = 0x100 → r1 < 256) ∧ (r0 = 0x200 → r1 < 65536)) :
    Unipi.decode r0 r1 = unipiMeaning r0 r1 := by
  by_cases h1 : r0 = 0x100
  · subst h1; simp [Unipi.decode, unipiMeaning, h.1 rfl]
  · by_cases h2 : r0 = 0x200
    · subst h2
      have hr := h.2 rfl
      have e1 : r1 >>> 8 = r1 / 256 := by simp [Nat.shiftRight_eq_div_pow]
      have e2 : r1 &&& 0xFF = r1 % 256 := by
        have := Nat.and_two_pow_sub_one_eq_mod r1 8
        simpa using this
      have hlt : r1 / 256 < 256 := by omega
      simp [Unipi.decode, unipiMeaning, e1, e2, hlt, Frame.ofBytesBE]
      omega
    · simp [Unipi.decode, unipiMeaning, h1, h2]

/-! ### UniPi receive side: the receive counter is hidden gateway state -/

/-- `_read_returning_frame`: the registers are taken as a new reply **iff** the counter differs from the sample -/
theorem unipi_reply_detected_iff (c1 : Nat) (p : Unipi.Poll) :
    Unipi.readReturning c1 p = (if c1 = p.counter then none else some (Unipi.decode p.r0 p.r1)) := by
  by_cases h : c1 = p.counter <;> simp [Unipi.readReturning, h]

/-- **unipi_reply_detected_across_wrap**: for all counters `c1 ≠ c2` — in any order, in particular `c1 = 0xFFFF`,
`c2 = 0` when the 16-bit register wraps — the reply is taken and decoded.  (Seeded change C18-D, `counter2 > counter1`,
contradicts this for every `c2 < c1`.) -/
theorem unipi_reply_detected_across_wrap (c1 c2 r0 r1 fe : Nat) (h : c1 ≠ c2) :
    Unipi.readReturning c1 ⟨c2, r0, r1, fe⟩ = some (Unipi.decode r0 r1) := by
  simp [Unipi.readReturning, h]

example : Unipi.readReturning 0xFFFF ⟨0, 0x100, 0x44, 0⟩ = some (.backward 0x44) := by decide

/-- the polling loop takes a backward frame at any of its iterations: `k < m` polls showing the sampled counter (stale
registers of any content), then one with any other counter and a backward frame -/
theorem unipi_poll_reply_any_position (cmp : Bool) (c1 fe1 c2 v fe t d : Nat) (hne : c1 ≠ c2) (hv : v < 256)
    (rest : List Unipi.Poll) : ∀ (k m : Nat), k < m →
    Unipi.pollLoop cmp c1 fe1 ((List.replicate k (⟨c1, t, d, fe1⟩ : Unipi.Poll) ++ ⟨c2, 0x100, v, fe⟩ :: rest).take m)
      = .response (some v) := by
  intro k
  induction k with
  | zero =>
    intro m hm
    obtain ⟨m', rfl⟩ : ∃ m', m = m' + 1 := ⟨m - 1, by omega⟩
    simp [Unipi.pollLoop, Unipi.readReturning, hne, Unipi.decode, hv]
  | succ k ih =>
    intro m hm
    obtain ⟨m', rfl⟩ : ∃ m', m = m' + 1 := ⟨m - 1, by omega⟩
    simp only [List.replicate_succ, List.cons_append, List.take_succ_cons, Unipi.pollLoop, Unipi.readReturning]
    simp [ih m' (by omega)]

/-- **an answered query returns its value whatever the counter**: against the gateway's registers (`unipiPolls`), for
every value `0..65535` of the hidden receive counter (the wrap included), every stale register content, every poll `k < 6`
before which the backward frame `v` arrives, `send` returns what the exchange denotes, `command.response(BackwardFrame(v))` -/
theorem unipi_answered_query_returns_value (g : UnipiRx) (hc : g.counter < 65536) (k v fe : Nat) (hk : k < 6)
    (hv : v < 256) (cmp : Bool) :
    Unipi.recv true cmp g.counter fe (unipiPolls fe none g [(k, 0x100, v)] 0 6)
      = unipiExchange true cmp [(k, 0x100, v)] none
    ∧ unipiExchange true cmp [(k, 0x100, v)] none = .response (some v) := by
  have hne : ¬ g.counter = (g.counter + 1) % 65536 := by omega
  have hk' : k = 0 ∨ k = 1 ∨ k = 2 ∨ k = 3 ∨ k = 4 ∨ k = 5 := by omega
  rcases hk' with rfl | rfl | rfl | rfl | rfl | rfl <;>
    simp [unipiPolls, unipiExchange, Unipi.recv, Unipi.nPolls, Unipi.pollLoop, Unipi.readReturning, UnipiRx.receive,
      Unipi.decode, hne, hv]

/-- an unanswered query is "no answer" whatever the (stale) registers hold; a command that expects no reply returns the
no-response marker -/
theorem unipi_unanswered_query (g : UnipiRx) (fe : Nat) (cmp : Bool) :
    Unipi.recv true cmp g.counter fe (unipiPolls fe none g [] 0 6) = unipiExchange true cmp [] none
    ∧ unipiExchange true cmp [] none = .response none := by
  simp [unipiPolls, unipiExchange, Unipi.recv, Unipi.nPolls, Unipi.pollLoop, Unipi.readReturning]

theorem unipi_no_reply_expected (cmp : Bool) (c1 fe1 : Nat) (polls : List Unipi.Poll) (ev : List (Nat × Nat × Nat))
    (feAt : Option Nat) :
    Unipi.recv false cmp c1 fe1 polls = unipiExchange false cmp ev feAt := by
  simp [Unipi.recv, unipiExchange]

/-- Tridonic DALI USB: every well-formed 64-byte response report means what the format says -/
theorem tridonic_decode_wellformed (p : List Nat) (h : tridonicWellFormed p) : Tridonic.decode p = tridonicMeaning p :=
  tridonic_decode_wf p h
/-- Tridonic receive loop (`_send_raw`): the gateway sends, for the command's sequence number, one transmission
confirmation per transmission (two for a send-twice command) and one answering report (backward frame / framing error /
"no frame"), **in any order**, possibly interleaved with reports that mean nothing.  Then the loop returns the
answering report's meaning for a query and nothing for any other command. -/
theorem tridonic_receive_wellformed (c : Cmd) (msgs : List (List Nat)) (r : Meaning)
    (hwf : ∀ m ∈ msgs, tridonicWellFormed m)
    (hack : (msgs.map tridonicMeaning).count .ack = (if c.sendtwice then 2 else 1))
    (hresp : (msgs.map tridonicMeaning).filter isResp = [r]) :
    Tridonic.receive c msgs = some (if c.isQuery then r else .none) := by
  obtain ⟨f, tw, q, s, dp⟩ := c
  have := collect_spec q msgs _ Option.none r hwf hack (Or.inr ⟨rfl, hresp⟩)
  unfold Tridonic.receive
  cases tw <;> simpa using this
/-- … and it keeps waiting (`Option.none`) as long as a confirmation or the answering report is missing -/
theorem tridonic_receive_waits (c : Cmd) (msgs : List (List Nat)) (hwf : ∀ m ∈ msgs, tridonicWellFormed m)
    (h : (msgs.map tridonicMeaning).count .ack < (if c.sendtwice then 2 else 1) ∨
      (msgs.map tridonicMeaning).filter isResp = []) :
    Tridonic.receive c msgs = Option.none := by
  obtain ⟨f, tw, q, s, dp⟩ := c
  unfold Tridonic.receive
  apply collect_waits q msgs _ _ hwf
  rcases h with h | h
  · left; cases tw <;> simp at h ⊢ <;> omega
  · right; right; exact ⟨rfl, h⟩
/-- legacy Tridonic: every packet (any direction / type code) -/
theorem ltridonic_decode_wellformed (p : List Nat) : LegacyTridonic.decode p = legacyTridonicMeaning p :=
  ltridonic_decode_wf p
/-- legacy hasseb: every report -/
theorem lhasseb_decode_wellformed (p : List Nat) : LegacyHasseb.decode p = legacyHassebMeaning p := lhasseb_decode_wf p
/-- ATX hat: a well-formed answer `<letter><hex><hex>` with or without the newline (digits in either case) -/
theorem atx_decode_wellformed (letter c1 c2 hi lo : Nat) (h1 : Atx.hexVal? c1 = some hi) (h2 : Atx.hexVal? c2 = some lo) :
    Atx.decode [letter, c1, c2, 10] = atxMeaning letter hi lo ∧ Atx.decode [letter, c1, c2] = atxMeaning letter hi lo :=
  atx_decode_wf letter c1 c2 hi lo h1 h2
/-- the hex text the format writes for a byte is such a pair of digits (non-vacuity of the hypotheses above) -/
theorem atx_hexByte_digits : ∀ b, b < 256 → (hexByte b).mapM Atx.hexVal? = some [b / 16, b % 16] := hexVal_hexByte

/-! ## frame bits in the prescribed field and alignment: the frame is recovered from the encoded packet -/

/-- every frame of every width is recovered from `as_byte_sequence` read big-endian -/
theorem frame_bytes_recoverable (f : Frame) (h : f.data < 2 ^ f.bits) :
    Frame.ofBytesBE (bytesOf f) = f.data ∧ (bytesOf f).length = nbytes f.bits ∧ ∀ b ∈ bytesOf f, b < 256 :=
  ⟨ofBytesBE_bytesOf f h, bytesOf_length f, bytesOf_lt f⟩
/-- Tridonic: bytes 4..7 (big-endian, right-aligned) are the frame, byte 3 the mode code, byte 1 the sequence number -/
theorem tridonic_frame_recoverable (seq : Nat) (c : Cmd) (p : List Nat) (hd : c.frame.data < 2 ^ c.frame.bits)
    (h : Tridonic.encode seq c = .ok p) :
    Frame.ofBytesBE ((p.drop 4).take 4) = c.frame.data ∧ p.getD 1 0 = seq ∧
      p.getD 3 0 = (if c.frame.bits = 16 then tridonic_SEND_MODE_DALI16 else tridonic_SEND_MODE_DALI24) := by
  refine ⟨tridonic_field seq c p h, ?_⟩
  rw [tridonic_conforms seq c hd] at h
  have h := expect_ok h
  by_cases h16 : c.frame.bits = 16
  · rw [h16] at h; simp [tridonicSend] at h; subst h; simp [h16, tridonic_SEND_MODE_DALI16]
  · by_cases h24 : c.frame.bits = 24
    · rw [h24] at h; simp [tridonicSend] at h; subst h; simp [h24, tridonic_SEND_MODE_DALI24]
    · simp [tridonicSend, h16, h24] at h
/-- hid.hasseb: each 2-byte write is the frame, big-endian -/
theorem hidhasseb_frame_recoverable (c : Cmd) (ws : List (List Nat)) (h : HidHasseb.encode c = .ok ws) :
    ∀ w ∈ ws, Frame.ofBytesBE w = c.frame.data := by
  unfold HidHasseb.encode at h
  split at h
  · cases h
  · split at h
    · cases h
    · rename_i fr heq
      obtain ⟨rfl, hlt⟩ := packLenNat_ok _ _ _ heq
      injection h with h; subst h
      intro w hw
      rw [List.eq_of_mem_replicate hw, Frame.ofBytesBE_toBytesBE]
      exact Nat.mod_eq_of_lt hlt
/-- LUBA format: bit count in byte 4, frame big-endian from the first of the four data bytes, the rest zero -/
theorem luba_format_frame_recoverable (bits data prio : Nat) (tw : Bool) (p : List Nat) (hd : data < 2 ^ bits)
    (h : lubaSend bits data prio tw = some p) :
    Frame.ofBytesBE ((p.drop 6).take (bits / 8)) = data ∧ p.getD 4 0 = bits ∧
      (p.drop (6 + bits / 8)).take (4 - bits / 8) = zeros (4 - bits / 8) := by
  by_cases h16 : bits = 16
  · subst h16; simp [lubaSend] at h; subst h; simp [Frame.ofBytesBE, zeros]; omega
  · by_cases h24 : bits = 24
    · subst h24; simp [lubaSend] at h; subst h; simp [Frame.ofBytesBE, zeros]; omega
    · simp [lubaSend, h16, h24] at h
/-- LUBA encoder -/
theorem luba_frame_recoverable (c : Cmd) (p : List Nat) (hd : c.frame.data < 2 ^ c.frame.bits)
    (h : Luba.encode c = .ok p) :
    Frame.ofBytesBE ((p.drop 6).take (c.frame.bits / 8)) = c.frame.data ∧ p.getD 4 0 = c.frame.bits ∧
      (p.drop (6 + c.frame.bits / 8)).take (4 - c.frame.bits / 8) = zeros (4 - c.frame.bits / 8) := by
  rw [luba_conforms c] at h
  exact luba_format_frame_recoverable _ _ _ _ _ hd (expect_ok h)
/-- SCI format: mode nibble = width code 2/3/8, frame big-endian from the first data byte (pinned alignment), rest zero -/
theorem sci_format_frame_recoverable (bits data : Nat) (tw : Bool) (p : List Nat) (hd : data < 2 ^ bits)
    (h : sciSend bits data tw = some p) :
    Frame.ofBytesBE ((p.drop 1).take (bits / 8)) = data ∧
      p.getD 0 0 &&& 0x0F = (if bits = 8 then 2 else if bits = 16 then 3 else 8) ∧
      (p.drop (1 + bits / 8)).take (3 - bits / 8) = zeros (3 - bits / 8) := by
  by_cases h8 : bits = 8
  · subst h8; simp [sciSend] at h; subst h; cases tw <;> simp [Frame.ofBytesBE, zeros] <;> omega
  · by_cases h16 : bits = 16
    · subst h16; simp [sciSend] at h; subst h; cases tw <;> simp [Frame.ofBytesBE, zeros] <;> omega
    · by_cases h24 : bits = 24
      · subst h24; simp [sciSend] at h; subst h; cases tw <;> simp [Frame.ofBytesBE, zeros] <;> omega
      · simp [sciSend, h8, h16, h24] at h
/-- SCI encoder -/
theorem sci_frame_recoverable (c : Cmd) (p : List Nat) (hd : c.frame.data < 2 ^ c.frame.bits)
    (h : Sci.encode c = .ok p) :
    Frame.ofBytesBE ((p.drop 1).take (c.frame.bits / 8)) = c.frame.data ∧
      p.getD 0 0 &&& sci_CONTROL_MODE_MASK =
        (if c.frame.bits = 8 then sciCode_SEND_DALI_8 else if c.frame.bits = 16 then sciCode_SEND_DALI_16
         else sciCode_SEND_DALI2_24) ∧
      (p.drop (1 + c.frame.bits / 8)).take (3 - c.frame.bits / 8) = zeros (3 - c.frame.bits / 8) := by
  rw [sci_conforms c] at h
  exact sci_format_frame_recoverable _ _ _ _ hd (expect_ok h)
/-- daliserver: bytes 2.. of each message -/
theorem daliserver_frame_recoverable (c : Cmd) (hd : c.frame.data < 2 ^ c.frame.bits) (ws : List (List Nat))
    (h : DaliServer.encode c = .ok ws) : ∀ w ∈ ws, Frame.ofBytesBE (w.drop 2) = c.frame.data := by
  unfold DaliServer.encode at h
  split at h
  · cases h
  · simp only at h; injection h with h; subst h
    intro w hw
    rw [List.eq_of_mem_replicate hw]
    simpa using ofBytesBE_bytesOf c.frame hd
/-- ATX hat: between the letter and the newline stand exactly two hex digits per frame byte whose value is the frame -/
theorem atx_frame_recoverable (c : Cmd) (p : List Nat) (hd : c.frame.data < 2 ^ c.frame.bits)
    (h : Atx.encode c = .ok p) :
    ∃ ds, (p.drop 1).dropLast.mapM Atx.hexVal? = some ds ∧ ds.length = 2 * nbytes c.frame.bits ∧
      ds.foldl (fun a d => a * 16 + d) 0 = c.frame.data ∧ p.getLast? = some 10 := by
  obtain ⟨pfx, rfl, _, _⟩ := atx_shape c p h
  refine ⟨nibbles (bytesOf c.frame), ?_, ?_, ?_, ?_⟩
  · have : (([pfx] ++ hexText (bytesOf c.frame) ++ [10]).drop 1).dropLast = hexText (bytesOf c.frame) := by
      simp
    rw [this]; exact hexText_mapM _ (bytesOf_lt _)
  · rw [nibbles_length, bytesOf_length]
  · rw [nibbles_foldl]; exact ofBytesBE_bytesOf c.frame hd
  · exact List.getLast?_concat
/-- legacy Tridonic: bytes 4..7 right-aligned, byte 1 the sequence number -/
theorem ltridonic_frame_recoverable (sn : Nat) (c : Cmd) (p : List Nat) (hd : c.frame.data < 2 ^ c.frame.bits)
    (h : LegacyTridonic.encode sn c = .ok p) :
    Frame.ofBytesBE ((p.drop 4).take 4) = c.frame.data ∧ p.getD 1 0 = sn := by
  unfold LegacyTridonic.encode at h
  split at h
  · rename_i hb
    have hb : c.frame.bits = 16 := by simpa using hb
    injection h with h; subst h
    obtain ⟨⟨bits, data⟩, tw, q, s, dp⟩ := c
    simp only at hb hd; subst hb
    simp [bytesOf16, Frame.ofBytesBE]; omega
  · cases h
/-- legacy hasseb: bytes 7..8, bit count in byte 3, sequence number in byte 2 -/
theorem lhasseb_frame_recoverable (sn : Nat) (c : Cmd) (p : List Nat) (sn' : Nat) (hd : c.frame.data < 2 ^ c.frame.bits)
    (h : LegacyHasseb.encode sn c = .ok (p, sn')) :
    Frame.ofBytesBE ((p.drop 7).take 2) = c.frame.data ∧ p.getD 3 0 = c.frame.bits ∧ p.getD 2 0 = sn' := by
  unfold LegacyHasseb.encode at h
  split at h
  · cases h
  · rename_i hb
    have hb : c.frame.bits = 16 := by simpa using hb
    injection h with h; injection h with h1 h2; subst h1 h2
    obtain ⟨⟨bits, data⟩, tw, q, s, dp⟩ := c
    simp only at hb hd; subst hb
    simp [bytesOf16, Frame.ofBytesBE]; omega
/-- UniPi: 16 low bits in the second register, bits 16..23 of a 24-bit frame in the low byte of the first; width code
2/3 in the option byte -/
theorem unipi_frame_recoverable (c : Cmd) (r0 r1 : Nat) (hd : c.frame.data < 2 ^ c.frame.bits)
    (h : Unipi.encode c = .ok (r0, r1)) :
    (if c.frame.bits = 24 then r0 % 256 else 0) * 65536 + r1 = c.frame.data ∧ r1 < 65536 ∧
      (r0 >>> 8) % 8 = (if c.frame.bits = 16 then 2 else 3) := by
  rw [unipi_conforms c] at h
  obtain ⟨⟨bits, data⟩, tw, q, s, dp⟩ := c
  simp only at h hd ⊢
  by_cases h16 : bits = 16
  · subst h16; simp [unipiRegs, expect] at h
    obtain ⟨rfl, rfl⟩ := h
    simp [Nat.shiftRight_eq_div_pow]; cases tw <;> simp <;> omega
  · by_cases h24 : bits = 24
    · subst h24; simp [unipiRegs, expect] at h
      obtain ⟨rfl, rfl⟩ := h
      simp [Nat.shiftRight_eq_div_pow]; cases tw <;> simp <;> omega
    · simp [unipiRegs, expect, h16, h24] at h

/-! ## non-vacuity -/

example : Luba.encode ⟨⟨16, 0xFE80⟩, true, false, false, false⟩ =
    .ok [0x59, 0x32, 7, 0, 16, 0x85, 0xFE, 0x80, 0, 0, 0xDE] := by decide
example : Sci.encode ⟨⟨12, 0xABC⟩, false, false, false, false⟩ = .error .ValueError := by decide
example : LegacyTridonic.getSn 255 = (255, 1) ∧ LegacyTridonic.getSn 1 = (1, 2) := by decide
example : Atx.encode ⟨⟨16, 0xFE80⟩, true, false, false, false⟩ = .ok [116, 70, 69, 56, 48, 10] := by decide
example : Atx.encode ⟨⟨24, 0xC1FE80⟩, true, false, false, false⟩ = .ok [108, 67, 49, 70, 69, 56, 48, 10] := by decide
example : tridonicWellFormed ([0x12, 0x72, 0, 0, 0, 0x55] ++ zeros 58) ∧
    Tridonic.decode ([0x12, 0x72, 0, 0, 0, 0x55] ++ zeros 58) = .backward 0x55 := by
  refine ⟨⟨by decide, by decide, by decide⟩, by decide⟩
example : Atx.decode [74, 102, 69, 10] = .backward 0xFE := by decide
/-- response before the confirmations, send-twice query -/
example : Tridonic.receive ⟨⟨16, 0xFF90⟩, true, true, true, false⟩
    [[0x12, 0x72, 0, 0, 0, 0x55] ++ zeros 58, [0x12, 0x73, 0, 0, 0xFF, 0x90] ++ zeros 58,
     [0x12, 0x73, 0, 0, 0xFF, 0x90] ++ zeros 58] = some (.backward 0x55) := by decide
example : Unipi.encode ⟨⟨24, 0xC1FE80⟩, true, false, false, false⟩ = .ok (0xBC1, 0xFE80) := by decide

end DaliVerif.Props.C18
