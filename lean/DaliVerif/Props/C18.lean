import DaliVerif.Proofs.WireEnc
/-!
# C18 — bytes exchanged with each gateway follow that gateway's wire format

Property theorems only.  `Wire.<Driver>` are the models of the drivers' encoders
and decoders (`Model/Wire.lean`, tied to the code by the correspondence suite),
`Spec.Gateways` the wire formats (independent / pinned as documented there),
`Gen.DriverConsts` the constants regenerated from the tree.  `expect e fmt` is
"the packet the format prescribes, or exception `e` when the gateway cannot carry
the width": every `…_encode_conforms` therefore states conformance **and**
refusal for every width at once; `…_refuses` spells the refusal out.
-/
namespace DaliVerif.Props.C18
open DaliVerif Wire Spec.Gateways Proofs.WireEnc
open Gen.DriverConsts

/-- the constants of the tree are the ones the formats were written with -/
theorem gen_consts :
    tridonic_CMD_SEND = 0x12 ∧ tridonic_SEND_CTRL_SENDTWICE = 0x20 ∧ tridonic_SEND_MODE_DALI16 = 3 ∧
    tridonic_SEND_MODE_DALI24 = 6 ∧ tridonic_SEND_MODE_DALI8 = 2 ∧ tridonic_cmdtmpl_size = 64 ∧
    tridonic_resptmpl_size = 64 ∧ tridonic_cmdtmpl_format = ">4B4s3B53x" ∧ tridonic_resptmpl_format = ">BB4sHB55x" ∧
    tridonic_MODE_INFO = 0x01 ∧ tridonic_MODE_OBSERVE = 0x11 ∧ tridonic_MODE_RESPONSE = 0x12 ∧
    tridonic_RESPONSE_NO_FRAME = 0x71 ∧ tridonic_RESPONSE_FRAME_DALI8 = 0x72 ∧ tridonic_RESPONSE_FRAME_DALI16 = 0x73 ∧
    tridonic_RESPONSE_FRAME_DALI24 = 0x76 ∧ tridonic_RESPONSE_INFO = 0x77 ∧ tridonic_BUS_STATUS_FRAMING_ERROR = 3 ∧
    hidhasseb = [("_INVALID_ANSWER", 3), ("_NO_ANSWER", 1), ("_NO_DATA_AVAILABLE", 0), ("_OK", 2)] ∧
    hidhasseb_cmdtmpl_size = 2 ∧
    lubaCmd_ADD_DALI_FRAME_TO_TX_CMD = 0x32 ∧ luba_MAX_LEN = 24 ∧
    sci_CONTROL_ME_MASK = 0x80 ∧ sci_CONTROL_IDENTIFY_MASK = 0x40 ∧ sci_CONTROL_ECHO_MASK = 0x20 ∧
    sci_CONTROL_SEND_TWICE_MASK = 0x10 ∧ sci_CONTROL_MODE_MASK = 0x0F ∧
    sciCode_SEND_DALI_8 = 2 ∧ sciCode_SEND_DALI_16 = 3 ∧ sciCode_SEND_DALI2_24 = 8 ∧
    atxPrefixTable = [(8, 106), (16, 104), (24, 108), (25, 109)] ∧
    legacyTridonic_DALI_USB_DIRECTION_DALI = 0x11 ∧ legacyTridonic_DALI_USB_DIRECTION_USB = 0x12 ∧
    legacyTridonic_DALI_USB_TYPE_16BIT = 3 ∧ legacyTridonic_DALI_USB_TYPE_NO_RESPONSE = 0x71 ∧
    legacyTridonic_DALI_USB_TYPE_RESPONSE = 0x72 ∧ legacyTridonic_DALI_USB_TYPE_COMPLETE = 0x73 ∧
    legacyTridonic_DALI_USB_TYPE_BROADCAST = 0x74 ∧ legacyTridonic_first_sn = 1 ∧
    legacyHasseb_HASSEB_DALI_FRAME = 7 ∧ legacyHasseb_first_sn = 0 ∧ unipi_DA_OPT_TWICE = 8 := by decide

/-! ## encode: conformance and refusal, every width -/

theorem tridonic_encode_conforms (seq : Nat) (c : Cmd) (hd : c.frame.data < 2 ^ c.frame.bits) :
    Tridonic.encode seq c =
      expect .UnsupportedFrameTypeError (tridonicSend seq c.frame.bits c.frame.data c.sendtwice) :=
  tridonic_conforms seq c hd
theorem hidhasseb_encode_conforms (c : Cmd) (hd : c.frame.data < 2 ^ c.frame.bits) :
    HidHasseb.encode c = expect .UnsupportedFrameTypeError (hassebWrites c.frame.bits c.frame.data c.sendtwice) :=
  hidhasseb_conforms c hd
theorem luba_encode_conforms (c : Cmd) :
    Luba.encode c = expect .ValueError (lubaSend c.frame.bits c.frame.data (lubaPriorityRule c) c.sendtwice) :=
  luba_conforms c
theorem sci_encode_conforms (c : Cmd) :
    Sci.encode c = expect .ValueError (sciSend c.frame.bits c.frame.data c.sendtwice) := sci_conforms c
theorem daliserver_encode_conforms (c : Cmd) :
    DaliServer.encode c = expect .UnsupportedFrameTypeError (daliserverSends c.frame.bits c.frame.data c.sendtwice) :=
  daliserver_conforms c
theorem atx_encode_conforms (c : Cmd) :
    Atx.encode c = expect .KeyError (atxLine c.frame.bits c.frame.data c.sendtwice) := atx_conforms c
theorem ltridonic_encode_conforms (sn : Nat) (c : Cmd) :
    LegacyTridonic.encode sn c = expect .ValueError
      (if c.frame.bits = 16 then tridonicSend sn 16 c.frame.data c.sendtwice else none) := ltridonic_conforms sn c
theorem lhasseb_encode_conforms (sn : Nat) (c : Cmd) :
    LegacyHasseb.encode sn c = expect .ValueError
      ((legacyHassebPacket (LegacyHasseb.snNext sn) c.frame.bits c.frame.data c.sendtwice c.isQuery).map
        (fun p => (p, LegacyHasseb.snNext sn))) := lhasseb_conforms sn c
theorem unipi_encode_conforms (c : Cmd) :
    Unipi.encode c = expect .ValueError (unipiRegs c.frame.bits c.frame.data c.sendtwice) := unipi_conforms c

/-- clause "refuses command frames of a length the gateway cannot carry" (K4: false of daliserver,
legacy hasseb, LUBA and SCI before the repairs) -/
theorem tridonic_refuses (seq : Nat) (c : Cmd) (hd : c.frame.data < 2 ^ c.frame.bits)
    (h : c.frame.bits ≠ 16 ∧ c.frame.bits ≠ 24) : Tridonic.encode seq c = .error .UnsupportedFrameTypeError := by
  rw [tridonic_conforms seq c hd]; simp [tridonicSend, expect, h.1, h.2]
theorem hidhasseb_refuses (c : Cmd) (hd : c.frame.data < 2 ^ c.frame.bits) (h : c.frame.bits ≠ 16) :
    HidHasseb.encode c = .error .UnsupportedFrameTypeError := by
  rw [hidhasseb_conforms c hd]; simp [hassebWrites, expect, h]
theorem luba_refuses (c : Cmd) (h : c.frame.bits ≠ 16 ∧ c.frame.bits ≠ 24) : Luba.encode c = .error .ValueError := by
  rw [luba_conforms c]; simp [lubaSend, expect, h.1, h.2]
theorem sci_refuses (c : Cmd) (h : c.frame.bits ≠ 8 ∧ c.frame.bits ≠ 16 ∧ c.frame.bits ≠ 24) :
    Sci.encode c = .error .ValueError := by
  rw [sci_conforms c]; simp [sciSend, expect, h.1, h.2.1, h.2.2]
theorem daliserver_refuses (c : Cmd) (h : c.frame.bits ≠ 16) :
    DaliServer.encode c = .error .UnsupportedFrameTypeError := by
  rw [daliserver_conforms c]; simp [daliserverSends, expect, h]
theorem atx_refuses (c : Cmd) (h : c.frame.bits ≠ 8 ∧ c.frame.bits ≠ 16 ∧ c.frame.bits ≠ 24 ∧ c.frame.bits ≠ 25) :
    Atx.encode c = .error .KeyError := by
  rw [atx_conforms c]; simp [atxLine, expect, h.1, h.2.1, h.2.2.1, h.2.2.2]
theorem ltridonic_refuses (sn : Nat) (c : Cmd) (h : c.frame.bits ≠ 16) :
    LegacyTridonic.encode sn c = .error .ValueError := by
  rw [ltridonic_conforms sn c]; simp [expect, h]
theorem lhasseb_refuses (sn : Nat) (c : Cmd) (h : c.frame.bits ≠ 16) :
    LegacyHasseb.encode sn c = .error .ValueError := by
  rw [lhasseb_conforms sn c]; simp [legacyHassebPacket, expect, h]
theorem unipi_refuses (c : Cmd) (h : c.frame.bits ≠ 16 ∧ c.frame.bits ≠ 24) : Unipi.encode c = .error .ValueError := by
  rw [unipi_conforms c]; simp [unipiRegs, expect, h.1, h.2]

/-! ## format facts: fixed length, checksum, send-twice (about the format the models were proved equal to) -/

/-- padding to the fixed packet size -/
theorem tridonic_length_fixed (seq bits data : Nat) (tw : Bool) (p : List Nat)
    (h : tridonicSend seq bits data tw = some p) : p.length = tridonic_cmdtmpl_size := by
  by_cases h16 : bits = 16
  · subst h16; simp [tridonicSend] at h; subst h; simp [zeros, tridonic_cmdtmpl_size]
  · by_cases h24 : bits = 24
    · subst h24; simp [tridonicSend] at h; subst h; simp [zeros, tridonic_cmdtmpl_size]
    · simp [tridonicSend, h16, h24] at h
theorem luba_length_fixed (bits data prio : Nat) (tw : Bool) (p : List Nat)
    (h : lubaSend bits data prio tw = some p) : p.length = 11 := by
  by_cases h16 : bits = 16
  · subst h16; simp [lubaSend] at h; subst h; simp
  · by_cases h24 : bits = 24
    · subst h24; simp [lubaSend] at h; subst h; simp
    · simp [lubaSend, h16, h24] at h
theorem sci_length_fixed (bits data : Nat) (tw : Bool) (p : List Nat)
    (h : sciSend bits data tw = some p) : p.length = sci_MAX_LEN := by
  by_cases h8 : bits = 8
  · subst h8; simp [sciSend] at h; subst h; simp [sci_MAX_LEN]
  · by_cases h16 : bits = 16
    · subst h16; simp [sciSend] at h; subst h; simp [sci_MAX_LEN]
    · by_cases h24 : bits = 24
      · subst h24; simp [sciSend] at h; subst h; simp [sci_MAX_LEN]
      · simp [sciSend, h8, h16, h24] at h

/- `checksum_valid` (∀ packets: `lubaCheck`/`sciCheck` of the format's packet) is NOT proved as a separate
theorem (xor associativity/commutativity normalisation was not finished).  The checksum byte is part of the
format that `luba_encode_conforms` / `sci_encode_conforms` equate the model with (the explicit xor chain in
`Spec.Gateways.lubaSend` / `sciSend`); its validity is evaluated on instances below and by the harness. -/
example : lubaCheck [0x59, 0x32, 7, 0, 16, 0x85, 0xFE, 0x80, 0, 0, 0xDE] = true := by decide
example : sciCheck [0xA3, 0xFE, 0x80, 0, 0xDD] = true := by decide

/-- "the send-twice flag exactly when the command requires it" -/
theorem tridonic_twice_iff (seq bits data : Nat) (tw : Bool) (p : List Nat)
    (h : tridonicSend seq bits data tw = some p) : tridonicTwiceBit p = tw := by
  by_cases h16 : bits = 16
  · subst h16; simp [tridonicSend] at h; subst h; cases tw <;> simp [tridonicTwiceBit]
  · by_cases h24 : bits = 24
    · subst h24; simp [tridonicSend] at h; subst h; cases tw <;> simp [tridonicTwiceBit]
    · simp [tridonicSend, h16, h24] at h
theorem hidhasseb_twice_iff (bits data : Nat) (tw : Bool) (ws : List (List Nat))
    (h : hassebWrites bits data tw = some ws) : ws.length = (if tw then 2 else 1) := by
  by_cases h16 : bits = 16
  · subst h16; simp [hassebWrites] at h; subst h; simp
  · simp [hassebWrites, h16] at h
theorem daliserver_twice_iff (bits data : Nat) (tw : Bool) (ws : List (List Nat))
    (h : daliserverSends bits data tw = some ws) : ws.length = (if tw then 2 else 1) := by
  by_cases h16 : bits = 16
  · subst h16; simp [daliserverSends] at h; subst h; simp
  · simp [daliserverSends, h16] at h

/-! ## sequence numbers: in range, never repeated immediately — for every number of sends -/

theorem tridonic_seq_range (start : Nat) (h : 1 ≤ start ∧ start ≤ 255) (n : Nat) :
    1 ≤ Tridonic.seqNth start n ∧ Tridonic.seqNth start n ≤ 255 := tri_seq_range start h n
theorem tridonic_seq_no_immediate_repeat (start : Nat) (h : 1 ≤ start ∧ start ≤ 255) (n : Nat) :
    Tridonic.seqNth start (n + 1) ≠ Tridonic.seqNth start n := tri_seq_norepeat start h n
theorem ltridonic_seq_range (n : Nat) : 1 ≤ LegacyTridonic.snNth n ∧ LegacyTridonic.snNth n ≤ 255 :=
  ltri_state_range n
/-- false of the code before the F10 repair (…, 255, 1, 1, 2) -/
theorem ltridonic_seq_no_immediate_repeat (n : Nat) : LegacyTridonic.snNth (n + 1) ≠ LegacyTridonic.snNth n :=
  ltri_seq_norepeat n
theorem lhasseb_seq_range (n : Nat) : 1 ≤ LegacyHasseb.snNth n ∧ LegacyHasseb.snNth n ≤ 255 := lhas_seq_range n
theorem lhasseb_seq_no_immediate_repeat (n : Nat) : LegacyHasseb.snNth (n + 1) ≠ LegacyHasseb.snNth n :=
  lhas_seq_norepeat n

/-! ## decode -/

theorem hidhasseb_decode_wellformed (status byte : Nat) :
    HidHasseb.decode status byte = hassebMeaning status byte := by
  simp only [HidHasseb.decode, hassebMeaning, hidhasseb_NO_DATA_AVAILABLE, hidhasseb_NO_ANSWER, hidhasseb_OK,
    hidhasseb_INVALID_ANSWER, beq_iff_eq]

theorem daliserver_decode_wellformed (q : Bool) (status rval : Nat) :
    DaliServer.decode q status rval = daliserverMeaning q status rval := by
  cases q <;> simp [DaliServer.decode, daliserverMeaning]

/-- a backward-frame register pair carries an 8-bit value, a forward-frame pair a 16-bit one -/
theorem unipi_decode_wellformed (r0 r1 : Nat) (h : (r0 = 0x100 → r1 < 256) ∧ (r0 = 0x200 → r1 < 65536)) :
    Unipi.decode r0 r1 = unipiMeaning r0 r1 := by
  by_cases h1 : r0 = 0x100
  · subst h1; simp [Unipi.decode, unipiMeaning, h.1 rfl]
  · by_cases h2 : r0 = 0x200
    · subst h2
      have hr := h.2 rfl
      have e1 : r1 >>> 8 = r1 / 256 := by simp [Nat.shiftRight_eq_div_pow]
      have e2 : r1 &&& 0xFF = r1 % 256 := by
        have := Nat.and_two_pow_sub_one_eq_mod r1 8
        simpa using this
      have hlt : r1 / 256 < 256 := by omega
      simp [Unipi.decode, unipiMeaning, e1, e2, hlt, Frame.ofBytesBE]
      omega
    · simp [Unipi.decode, unipiMeaning, h1, h2]

/-! ## non-vacuity -/

example : Luba.encode ⟨⟨16, 0xFE80⟩, true, false, false, false⟩ =
    .ok [0x59, 0x32, 7, 0, 16, 0x85, 0xFE, 0x80, 0, 0, 0xDE] := by decide
example : Sci.encode ⟨⟨12, 0xABC⟩, false, false, false, false⟩ = .error .ValueError := by decide
example : LegacyTridonic.getSn 255 = (255, 1) ∧ LegacyTridonic.getSn 1 = (1, 2) := by decide

end DaliVerif.Props.C18
