import DaliVerif.Props.C16
/-!
# C16, Tridonic: why the sequence numbers must not be re-used at once

`routing_tridonic` (Props/C16.lean) holds for the driver's allocation `seqAt s0 k` — a running counter that wraps
from 255 to 1 — under the gateway contract `Timely` (a report is about a written command and arrives before 255
further numbers have been drawn).  `Timely` allows a report to arrive AFTER its command has left `_outstanding`
(the caller was cancelled, or the gateway repeats the echo of its last frame): with the counter such a report meets
no entry and is dropped (`late_report_is_dropped`).

The counterfactual allocation "lowest number with no command outstanding" (seeded change C16-O) keeps the two
in-flight commands apart just as well, but under the same contract it delivers a late report to the NEXT caller:
`lowest_free_misroutes` is a four-event history — write, abandon, write, late report about the first — after which
the second command's message list holds a message about the first.  (The history is the one the harness's
`route_tridonic_late` replays on the real driver.)
-/
namespace DaliVerif.Props.C16Seq
open DaliVerif DaliVerif.Routing DaliVerif.Answer

/-- with the running counter: a report about a command that has left `_outstanding`, arriving while only the
next command is outstanding, changes nothing -/
theorem late_report_is_dropped (s0 : Nat) (h1 : 1 ≤ s0) (h2 : s0 ≤ 255) (m : TMsg) :
    let t := (Tri.init s0).run [.alloc, .finish 0, .alloc]
    (t.step (.deliver 0 m)).1.out = t.out ∧ t.out.map (·.msgs) = [[]] := by
  have hne : seqAt s0 1 ≠ seqAt s0 0 := by
    intro h
    have := (Props.C16.seqAt_eq_iff s0 1 0 h1 h2).mp h
    omega
  simp [Tri.run, Tri.step, Tri.init, hne]

/-- the counterfactual allocation of seeded change C16-O: the lowest number ≥ 1 that no outstanding command uses
(fuel 256: there are at most two commands in flight) -/
def lowestFree (out : List Entry) : Nat :=
  ((List.range 256).drop 1).find? (fun s => !out.any (·.seq == s)) |>.getD 1

/-- `Tri.step` with that allocation; a report is routed by the number its command was written with -/
structure TriL where
  next : Nat
  seqOf : List (Nat × Nat)     -- ghost: allocation index ↦ number written
  out : List Entry
  deriving Repr

def TriL.step (t : TriL) : TriEv → TriL
  | .alloc =>
    let s := lowestFree t.out
    { next := t.next + 1, seqOf := (t.next, s) :: t.seqOf, out := t.out ++ [⟨s, t.next, []⟩] }
  | .deliver about m =>
    match t.seqOf.lookup about with
    | none => t
    | some s => { t with out := t.out.map (fun e => if e.seq == s then { e with msgs := e.msgs ++ [⟨about, m⟩] } else e) }
  | .finish idx => { t with out := t.out.filter (·.idx != idx) }

def TriL.run (evs : List TriEv) : TriL := evs.foldl TriL.step ⟨0, [], []⟩

/-- **the witness**: under "lowest free number" the late report about command 0 lands in command 1's list -/
theorem lowest_free_misroutes (m : TMsg) :
    (TriL.run [.alloc, .finish 0, .alloc, .deliver 0 m]).out = [⟨1, 1, [⟨0, m⟩]⟩] := by
  simp [TriL.run, TriL.step, lowestFree, List.lookup]
  decide

/-- … which is exactly what `routing_tridonic`'s first clause forbids -/
theorem lowest_free_violates_routing (m : TMsg) :
    ¬ (∀ e ∈ (TriL.run [.alloc, .finish 0, .alloc, .deliver 0 m]).out, ∀ x ∈ e.msgs, x.about = e.idx) := by
  rw [lowest_free_misroutes]
  intro h
  have := h ⟨1, 1, [⟨0, m⟩]⟩ (by simp) ⟨0, m⟩ (by simp)
  simp at this

end DaliVerif.Props.C16Seq
