import DaliVerif.Proofs.DecodeEvent
import DaliVerif.Gen.Commands
/-!
# C01 — every forward frame decodes, and the decoded command re-encodes to it

`Cmd.decode` / `Cmd.encode` are the models of `Command.from_frame` and of the
constructors (`Model/Decode.lean`, tied to the code by the exhaustive
correspondence suite `decode`); `Gen.tables` are the registries regenerated
from the current tree.
-/
namespace DaliVerif.Props.C01
open DaliVerif Cmd

/-- **The tie to the current tree**: the registries as the metaclasses populate
them at import satisfy the table condition (every class is registered under
the key its own opcode implies, every implementor is one the model mirrors).
Re-checked by the kernel on every run against the regenerated tables. -/
theorem tables_ok : TableOK Gen.tables := by decide +kernel

/-- **Decoding never fails and the decoded object's frame is the input** — for
every registry satisfying `TableOK`, every frame length `bits ≥ 1`, every
`data < 2^bits`, every claimed device type (any natural number, implemented or
not) and every instance-type map (absent, empty, or resolving to any integer
type, implemented or not): the constructor call that decoding performs does
not raise, and the frame it builds is bit-identical to the input.  Frames
matching no known command come back as generic/unknown commands with the same
bits (they are branches of `decode`). -/
theorem encode_decode (T : Tables) (hT : TableOK T) (bits data dt : Nat) (m : Option InstMap)
    (hd : data < 2 ^ bits) :
    encode (decode T bits data dt m) = .ok ⟨bits, data⟩ := by
  have hF := hT.facts
  unfold decode
  simp only []
  split
  · rfl
  · rename_i subs hl
    have htop := hF.top _ (lookup_mem hl)
    simp only [topOK, List.all_eq_true] at htop
    cases hf : subs.findSome? _ with
    | none => rfl
    | some c =>
      simp only [Option.getD_some]
      obtain ⟨e, hmem, he⟩ := List.exists_of_findSome?_eq_some hf
      have hte := htop e hmem
      cases e with
      | gear =>
        simp only [beq_iff_eq] at hte; subst hte
        injection he with he; subst he
        exact gear_sound T hF data dt hd
      | device =>
        simp only [beq_iff_eq] at hte; subst hte
        exact device_sound T hF data hd c he
      | event =>
        simp only [beq_iff_eq] at hte; subst hte
        exact event_sound T hF data hd m c he
      | custom n => simp at hte

/-- the statement for the registries of the current tree -/
theorem encode_decode_gen (bits data dt : Nat) (m : Option InstMap) (hd : data < 2 ^ bits) :
    encode (decode Gen.tables bits data dt m) = .ok ⟨bits, data⟩ :=
  encode_decode Gen.tables tables_ok bits data dt m hd

/-- one decoding request -/
structure Req where
  bits : Nat
  data : Nat
  dt : Nat
  map : Option InstMap

/-- **Purity** — the model of decoding is a function of (frame, device type,
map) and of the registries only: in any two histories of decodings that end
with the same request, the last results agree.  (For the *code* this clause is
validated by shuffled re-decoding and registry snapshots, see the harness.) -/
theorem decode_pure (T : Tables) (h₁ h₂ : List Req) (r : Req) :
    ((h₁ ++ [r]).map fun q => decode T q.bits q.data q.dt q.map).getLast? =
    ((h₂ ++ [r]).map fun q => decode T q.bits q.data q.dt q.map).getLast? := by
  simp

/-! ### non-vacuity: concrete decodings against the current registries -/
example : className (decode Gen.tables 16 0x01E3 6 none) = "gear.led.SelectDimmingCurve" := by
  decide +kernel
example : encode (decode Gen.tables 24 ((5 <<< 17) ||| (1 <<< 15) ||| (3 <<< 10) ||| 700) 0
    (some [((5, 3), 4)])) = .ok ⟨24, (5 <<< 17) ||| (1 <<< 15) ||| (3 <<< 10) ||| 700⟩ := by
  decide +kernel

end DaliVerif.Props.C01
