import DaliVerif.Proofs.ConstructLegal
import DaliVerif.Proofs.EventLegal
import DaliVerif.Model.Construct
import DaliVerif.Gen.Commands
import DaliVerif.Props.C05
/-!
# C02 — every constructible command or event decodes back to itself
-/
set_option linter.unusedSimpArgs false
namespace DaliVerif.Props.C02
open DaliVerif Cmd Spec

/-- **The tie to the current tree**: dispatch orders, key uniqueness, special
address bytes that decode to no address, non-overlapping special device
classes — re-checked on the regenerated registries on every run. -/
theorem tables_ok2 : TableOK2 Gen.tables := by decide +kernel

/-- **Decode ∘ construct = id** — for every registry satisfying `TableOK2` and
every legal object (`WF`: class registered, destination of the right kind,
parameters / instance / scheme fields / event data in range; the one excluded
combination is an instance command with the `Device` instance byte): the
constructor's frame assembly succeeds, and decoding that frame under the
object's own device type (and, for device/instance-scheme events, a map naming
its instance type) yields the *same object*: same class, destination,
parameters, instance, addressing fields and event data. -/
theorem decode_construct (T : Tables) (hT : TableOK2 T) (c : Cmd) (h : WF T c) :
    ∃ bits d, encode c = .ok ⟨bits, d⟩ ∧ decode T bits d (dtOf c) (mapFor c) = c :=
  decode_encode T hT c h

theorem decode_construct_gen (c : Cmd) (h : WF Gen.tables c) :
    ∃ bits d, encode c = .ok ⟨bits, d⟩ ∧ decode Gen.tables bits d (dtOf c) (mapFor c) = c :=
  decode_encode Gen.tables tables_ok2 c h

/-- the textual form is a function of the object, so it is preserved as well -/
theorem render_preserved (T : Tables) (hT : TableOK2 T) (c : Cmd) (h : WF T c) :
    ∃ bits d, encode c = .ok ⟨bits, d⟩ ∧ render (decode T bits d (dtOf c) (mapFor c)) = render c := by
  obtain ⟨b, d, h1, h2⟩ := decode_encode T hT c h
  exact ⟨b, d, h1, by rw [h2]⟩

/-- **Two different commands never share a frame** (decoded in the same
context: same device type, same map). -/
theorem no_shared_frame (T : Tables) (hT : TableOK2 T) (c₁ c₂ : Cmd) (h₁ : WF T c₁) (h₂ : WF T c₂)
    (hdt : dtOf c₁ = dtOf c₂) (hm : mapFor c₁ = mapFor c₂) (he : encode c₁ = encode c₂) : c₁ = c₂ := by
  obtain ⟨b1, d1, e1, r1⟩ := decode_encode T hT c₁ h₁
  obtain ⟨b2, d2, e2, r2⟩ := decode_encode T hT c₂ h₂
  rw [he, e2] at e1
  injection e1 with e1
  injection e1 with hb hd
  subst hb; subst hd
  rw [← r1, ← r2, hdt, hm]

/-! ### rejection of illegal arguments (the constructors' checks) -/

/-- a 4-bit parameter outside 0..15, or a non-integer one, is refused -/
theorem std_param_rejected (c : StdClass) (hp : c.hasparam = true) (dest : Arg) (v : PyVal)
    (hbad : match v.asInt? with | some i => i < 0 ∨ i > 15 | none => True) :
    constructStd c [dest, .val v] = .error .ValueError := by
  simp only [constructStd, hp, if_true, intParam, bind, Except.bind]
  cases hv : v.asInt? with
  | none => simp only [hv]
  | some i =>
    simp only [hv] at hbad ⊢
    have : (i < 0 || i > (15 : Nat)) = true := by simp; omega
    rw [if_pos this]

/-- wrong number of arguments -/
theorem std_arity_rejected (c : StdClass) (dest a b : Arg) :
    (c.hasparam = true → constructStd c [dest] = .error .TypeError ∧
      constructStd c [dest, a, b] = .error .TypeError) ∧
    (c.hasparam = false → constructStd c [dest, a] = .error .TypeError) := by
  constructor
  · intro h; simp [constructStd, h, bind, Except.bind]
  · intro h; simp [constructStd, h, bind, Except.bind]

/-- an integer destination outside 0..63 and a non-address destination are refused -/
theorem destination_rejected (v : PyVal)
    (hbad : match v.asInt? with | some i => i < 0 ∨ i > 63 | none => True) :
    checkDestination (.val v) = .error .ValueError := by
  unfold checkDestination
  cases hv : v.asInt? with
  | none => simp only [hv]
  | some i =>
    simp only [hv] at hbad ⊢
    simp only [Addr.mkGearShort, Addr.mkNumbered, hv]
    have : (i < 0 || i > (63 : Nat)) = true := by simp; omega
    rw [if_pos this]; rfl

/-- **an address of the wrong kind is refused, not truncated**: a device
address on a gear command and a gear address on a device command make the
frame assembly raise `IncompatibleFrame` -/
theorem wrong_kind_rejected (a : Addr) :
    (a.isGear = false → ∀ (c : StdClass) (p : Nat), p ≤ 15 → c.cmdval < 256 →
        encode (.standard c a p) = .error .IncompatibleFrame ∧
        ∀ pw, pw ≤ 255 → encode (.dapc a pw) = .error .IncompatibleFrame) ∧
    (a.isGear = true → ∀ (c : DevClass), c.opcode < 256 →
        encode (.devStd c a) = .error .IncompatibleFrame ∧
        ∀ i, encode (.devInst c a i) = .error .IncompatibleFrame) := by
  constructor
  · intro hg c p hp hc
    have hfs : a.frameSize = 24 := by simp [Addr.frameSize, hg]
    constructor
    · have hlt : (0x100 ||| c.cmdval ||| if c.hasparam then p else 0) < 2 ^ 16 := by
        apply Frame.lt_two_pow_of_testBit
        intro j hj
        have h1 : (0x100 : Nat).testBit j = false := Frame.testBit_eq_false_of_lt (bits := 16) (by decide) hj
        have h2 : c.cmdval.testBit j = false := Frame.testBit_eq_false_of_lt (bits := 16) (by simp; omega) hj
        have h3 : (if c.hasparam then p else 0).testBit j = false :=
          Frame.testBit_eq_false_of_lt (bits := 16) (by split <;> simp <;> omega) hj
        simp [Nat.testBit_or, h1, h2, h3]
      cases hh : c.hasparam with
      | true =>
        simp only [hh, if_true] at hlt
        simp only [encode, hh, if_true, bind, Except.bind]
        rw [rangeCheck_ok p 15 hp]
        simp only []
        rw [newFrame_ok 16 _ (by omega) hlt]
        simp [Addr.addToFrame, hfs]
      | false =>
        simp only [hh, Bool.false_eq_true, if_false] at hlt
        simp only [encode, hh, Bool.false_eq_true, if_false, bind, Except.bind, pure, Except.pure]
        rw [newFrame_ok 16 _ (by omega) hlt]
        simp [Addr.addToFrame, hfs]
    · intro pw hpw
      simp only [encode, bind, Except.bind]
      rw [rangeCheck_ok pw 255 hpw]
      simp only []
      rw [newFrame_ok 16 pw (by omega) (by simp; omega)]
      simp [Addr.addToFrame, hfs]
  · intro hg c hc
    have hfs : a.frameSize = 16 := by simp [Addr.frameSize, hg]
    constructor
    · simp only [encode, bind, Except.bind]
      rw [or_1FE00 _ hc, newFrame_ok 24 _ (by omega) (by simp; omega)]
      simp [Addr.addToFrame, hfs]
    · intro i
      simp only [encode, bind, Except.bind]
      rw [or_10000 _ hc, newFrame_ok 24 _ (by omega) (by simp; omega)]
      simp [Addr.addToFrame, hfs]

/-- an 8-bit parameter outside 0..255 is refused (special commands, DAPC) -/
theorem byte_param_rejected (v : PyVal)
    (hbad : match v.asInt? with | some i => i < 0 ∨ i > 255 | none => True) :
    intParam (.val v) 255 = .error .ValueError := by
  unfold intParam
  cases hv : v.asInt? with
  | none => simp only [hv]
  | some i =>
    simp only [hv] at hbad ⊢
    have : (i < 0 || i > (255 : Nat)) = true := by simp; omega
    rw [if_pos this]

/-- an instance number / group / type outside 0..31 is refused by the
instance-byte constructors; an illuminance beyond ten bits and a scheme field
beyond five bits are refused by the frame (a slice write never truncates) -/
theorem slice_write_rejects (f : Frame) (hi lo : Nat) (v : Int) (hlo : lo ≤ hi) (hhi : hi < f.bits)
    (hbad : v < 0 ∨ (2 ^ (hi + 1 - lo) : Int) ≤ v) :
    setSlice f hi lo v = .error .ValueError := by
  unfold setSlice natVal
  have hrs : f.readSlice (.int hi) (.int lo) .none = .ok (hi, lo) := by
    rw [Frame.readSlice_eq]
    simp only [Bits.sliceOf, PyVal.asInt?]
    have h1 : (0 : Int) ≤ hi ∧ (hi : Int) < f.bits ∧ (0 : Int) ≤ lo ∧ (lo : Int) < f.bits := by omega
    simp [h1]
    omega
  simp only [Frame.setItem, hrs, bind, Except.bind, PyVal.asInt?]
  have hvc := value_checks v (hi + 1 - lo)
  by_cases c1 : bitLength v > hi + 1 - lo
  · simp [c1]
  · have c2 : v < 0 := by
      apply Decidable.byContradiction
      intro c2
      have := hvc.mp ⟨c1, c2⟩
      omega
    simp [c1, c2]

/-! ### non-vacuity: legal objects exist, one per constructor family -/
example : ∃ c a, WF Gen.tables (.standard c a 7) ∧ c.name = "gear.general.GoToScene" :=
  ⟨⟨"gear.general.GoToScene", 16, true, 0, true⟩, .gearGroup 3,
    ⟨by decide +kernel, by decide, by decide, by decide⟩, rfl⟩
example : WF Gen.tables (.ambiguous 63 31 1023) := ⟨by decide, by decide, by decide⟩
example : ∃ c, WF Gen.tables (.devSpecial c 0x12 0x34) :=
  ⟨⟨"device.general.DTR2DTR1", 201, 999, .two⟩, ⟨by decide +kernel, by decide⟩⟩

end DaliVerif.Props.C02

namespace DaliVerif.Props.C02
open DaliVerif Cmd Spec

/-- **Whatever a constructor accepts is legal** — if the constructor returns and
the frame assembly succeeds, the object is in the legal set `WF` (parameters in
range, destination a valid address of the command's own kind, …): nothing
outside the legal ranges is ever accepted or truncated into another command's
frame.  One theorem per constructor family; `hreg` says the class is registered
(re-checked for the current tree by C03's `rows_registered`). -/
theorem std_accepted_is_legal (T : Tables) (c : StdClass)
    (hreg : ∀ p, (if c.hasparam then p ≤ 15 else p = 0) → ((c.dt, c.cmdval + p), c) ∈ T.stdOpcodes)
    (args : List Arg) (hargs : ∀ a ∈ args, ArgOK a) (cmd : Cmd) (f : Frame)
    (h : constructStd c args = .ok cmd) (he : encode cmd = .ok f) : WF T cmd :=
  Cmd.std_accepted_is_legal T c hreg args hargs cmd f h he

theorem dapc_accepted_is_legal (T : Tables) (args : List Arg) (hargs : ∀ a ∈ args, ArgOK a)
    (cmd : Cmd) (f : Frame) (h : constructDapc args = .ok cmd) (he : encode cmd = .ok f) : WF T cmd :=
  Cmd.dapc_accepted_is_legal T args hargs cmd f h he

theorem special_accepted_is_legal (T : Tables) (c : SpecialClass)
    (hreg : (c.cmdval, c) ∈ T.specialOpcodes) (hk : c.kind = .plain) (args : List Arg) (cmd : Cmd)
    (h : constructSpecial c args = .ok cmd) : WF T cmd :=
  Cmd.special_accepted_is_legal T c hreg hk args cmd h

theorem shortSpecial_accepted_is_legal (T : Tables) (c : SpecialClass)
    (hreg : (c.cmdval, c) ∈ T.specialOpcodes) (hk : c.kind = .shortAddr) (args : List Arg) (cmd : Cmd)
    (h : constructShortSpecial c args = .ok cmd) : WF T cmd :=
  Cmd.shortSpecial_accepted_is_legal T c hreg hk args cmd h

theorem initialise_accepted_is_legal (T : Tables) (c : SpecialClass)
    (hreg : (c.cmdval, c) ∈ T.specialOpcodes) (hk : c.kind = .initialise) (b a : PyVal) (cmd : Cmd)
    (h : constructInitialise c b a = .ok cmd) : WF T cmd :=
  Cmd.initialise_accepted_is_legal T c hreg hk b a cmd h

theorem devStd_accepted_is_legal (T : Tables) (c : DevClass) (hreg : (c.opcode, c) ∈ T.devOpcodes)
    (args : List Arg) (hargs : ∀ a ∈ args, ArgOK a) (cmd : Cmd) (f : Frame)
    (h : constructDevStd c args = .ok cmd) (he : encode cmd = .ok f) : WF T cmd :=
  Cmd.devStd_accepted_is_legal T c hreg args hargs cmd f h he

/-- instance commands: legal apart from the excluded instance byte 0xFE (`Device`)
and hand-made reserved bytes -/
theorem devInst_accepted_is_legal (T : Tables) (c : DevClass) (hreg : (c.opcode, c) ∈ T.instOpcodes)
    (dest : Arg) (i : Inst) (hd : ArgOK dest) (hi : i.Canonical) (hnd : i ≠ .device) (cmd : Cmd) (f : Frame)
    (h : constructDevInst c [dest, .inst i] = .ok cmd) (he : encode cmd = .ok f) : WF T cmd :=
  Cmd.devInst_accepted_is_legal T c hreg dest i hd hi hnd cmd f h he

theorem devSpecial_accepted_is_legal (T : Tables) (c : DevSpecialClass)
    (hreg : DevEntry.special c ∈ T.devCommands) (args : List Arg) (cmd : Cmd)
    (h : constructDevSpecial c args = .ok cmd) : WF T cmd :=
  Cmd.devSpecial_accepted_is_legal T c hreg args cmd h

/-- **Event constructors, keyword arguments**: `_Event.__init__` accepts exactly
the five keyword combinations of part 103 Table 3 and selects exactly that
scheme; every other combination is refused (with `ValueError`). -/
theorem event_keywords_spec (sa inum ig dg : Option Nat) (src : EventSrc) :
    constructEventSrc sa inum ig dg = .ok src ↔
      (∃ a, sa = some a ∧ inum = none ∧ ig = none ∧ dg = none ∧ src = .device a) ∨
      (∃ a n, sa = some a ∧ inum = some n ∧ ig = none ∧ dg = none ∧ src = .deviceInstance a n) ∨
      (∃ g, sa = none ∧ inum = none ∧ ig = none ∧ dg = some g ∧ src = .deviceGroup g) ∨
      (∃ g, sa = none ∧ inum = none ∧ ig = some g ∧ dg = none ∧ src = .instanceGroup g) ∨
      (∃ n, sa = none ∧ inum = some n ∧ ig = none ∧ dg = none ∧ src = .inst n) :=
  Cmd.constructEventSrc_spec sa inum ig dg src

theorem event_keywords_error (sa inum ig dg : Option Nat) (e : PyErr)
    (h : constructEventSrc sa inum ig dg = .error e) : e = .ValueError :=
  Cmd.constructEventSrc_error sa inum ig dg e h

/-- **Event constructors, ranges**: if the frame assembly of an event object
succeeds, short address ≤ 63, instance number / groups ≤ 31, instance type ≤ 31
where the scheme carries it, data within the ten information bits — nothing is
truncated into another event's frame. -/
theorem event_accepted_fields (cls : String) (t : Nat) (src : EventSrc) (body : EventBody) (f : Frame)
    (h : encode (.event cls t src body) = .ok f) :
    SrcOK src ∧ (srcHasType src = true → t ≤ 31) ∧ BodyOK body :=
  Cmd.event_accepted_fields cls t src body f h

theorem unknownEvent_accepted_fields (t : Int) (src : EventSrc) (data : Nat) (f : Frame)
    (h : encode (.unknownEvent t src data) = .ok f) :
    SrcOK src ∧ (srcHasType src = true → 0 ≤ t ∧ t ≤ 31) ∧ data < 1024 :=
  Cmd.unknownEvent_accepted_fields t src data f h

theorem ambiguous_accepted_is_legal (T : Tables) (sa inum data : Nat) (f : Frame)
    (h : encode (.ambiguous sa inum data) = .ok f) : WF T (.ambiguous sa inum data) :=
  Cmd.ambiguous_accepted_is_legal T sa inum data f h

theorem event_accepted_is_legal (T : Tables) (cls : String) (t : Nat) (src : EventSrc) (body : EventBody)
    (f : Frame) (h : encode (.event cls t src body) = .ok f) (ht : t ≤ 31)
    (hcls : match body with
       | .pushbutton pc => cls = pc.name ∧ (pc.info, pc) ∈ T.pushEvents ∧
           ∃ et, (t, et) ∈ T.instanceTypes ∧ et.kind = .pushbutton
       | .occupancy .. => ∃ et, (t, et) ∈ T.instanceTypes ∧ et.kind = .occupancy ∧ et.name = cls
       | .light _ => ∃ et, (t, et) ∈ T.instanceTypes ∧ et.kind = .light ∧ et.name = cls
       | .unknown _ => False) :
    WF T (.event cls t src body) :=
  Cmd.event_accepted_is_legal T cls t src body f h ht hcls

/-- non-vacuity: an event constructor call that is accepted, and one refused -/
example : constructEventSrc (some 5) (some 3) none none = .ok (.deviceInstance 5 3) := rfl
example : constructEventSrc (some 5) none (some 1) none = .error .ValueError := rfl
example : (encode (.event "device.light.IlluminanceLevelReport" 4 (.inst 31) (.light 1023))).isOk = true := by
  decide +kernel
example : encode (.event "device.light.IlluminanceLevelReport" 4 (.inst 32) (.light 5)) = .error .ValueError := by
  decide +kernel

end DaliVerif.Props.C02
