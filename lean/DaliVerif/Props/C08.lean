import DaliVerif.Spec.GearPost
namespace DaliVerif.Props.C08
end DaliVerif.Props.C08
