import DaliVerif.Props.GearCmds
import DaliVerif.Proofs.GearSeqC08
/-!
# C08 — gear query/set sequences report and establish exactly the gear's state

Property theorems only.  The models `queryDeviceTypes` (as repaired by the `fix:` commit),
`queryGroups`, `setGroups` (`Model/GearSeq.lean`) are tied to `dali/sequences.py` by lock-step
execution; `runBus` runs them against the specification bus (`Spec/GearBus.lean`, any number of
units), `runStream` against an arbitrary answer stream; `qdtPost`, `qdtStreamPost`, `groupsPost`,
`setGroupsPost` (`Spec/GearPost.lean`) are the property's clauses — the same functions the driver
evaluates on the real generator's behaviour.
-/
namespace DaliVerif.Props.C08
open DaliVerif GearSeq

/-- the commands of these sequences are flagged `sendtwice` exactly where the standard requires a repetition
(regenerated table; shared statement `Props.GearCmds`) -/
theorem cmd_sendtwice_gen :
    GearCmds.sampleCmds.map (fun c => (c.cls, c.twiceRequired)) =
      Gen.GearSeqEnums.cmdSamples.map (fun r => (r.1, r.2.2.2.1)) := GearCmds.cmd_sendtwice_gen

theorem cmd_frames_gen :
    GearCmds.sampleCmds.map (fun c => (c.cls, c.frame, c.devicetype)) =
      Gen.GearSeqEnums.cmdSamples.map (fun r => (r.1, r.2.1, r.2.2.1)) := GearCmds.cmd_frames_gen


/-- a plain `int` destination behaves as the short address it denotes -/
theorem dest_int (d : Dest) (a : Addr) (hd : d.resolve = .ok a) :
    queryDeviceTypes d = queryDeviceTypes (.addr a) ∧ queryGroups d = queryGroups (.addr a) := by
  constructor <;>
    simp only [queryDeviceTypes, queryGroups, withDest_resolve d a hd, withDest_resolve (.addr a) a rfl]

/-- **qdt_bus** — QueryDeviceTypes against *any* bus whose units report bytes: at most 257
commands; the result is DALISequenceError or a strictly ascending list; nobody / several units at
the address ⇒ DALISequenceError; one conforming unit ⇒ exactly its list. -/
theorem qdt_bus (b : Bus) (hw : TypesWF b) (d : Dest) (a : Addr) (hd : d.resolve = .ok a) :
    qdtPost b a (runBus (queryDeviceTypes d) b) = true := by
  rw [(dest_int d a hd).1]; exact qdtPost_holds b hw a

/-- **qdt_conforming** — for every strictly ascending list `L ⊆ 0..253` (empty, single, many,
including type 0), on a bus of any size where the one unit addressed implements exactly `L`:
the result is exactly `L`. -/
theorem qdt_conforming (b : Bus) (hw : TypesWF b) (a : Addr) (u : Gear)
    (hu : b.filter (·.addressed a) = [u]) (hasc : ascending u.types = true)
    (hrange : ∀ t ∈ u.types, t < 254) :
    (runBus (queryDeviceTypes (.addr a)) b).res = .ret u.types := by
  have h := qdtPost_holds b hw a
  have hconf : u.typesConforming = true := by
    simp [Gear.typesConforming, hasc]; exact hrange
  simp only [qdtPost, hu, hconf, if_true, Bool.and_eq_true, beq_iff_eq] at h
  exact h.2

/-- **qdt_silent** — nobody at the address: DALISequenceError after one command. -/
theorem qdt_silent (b : Bus) (hw : TypesWF b) (a : Addr) (hu : b.filter (·.addressed a) = []) :
    (runBus (queryDeviceTypes (.addr a)) b).res = .raised .DALISequenceError := by
  have h := qdtPost_holds b hw a
  simp only [qdtPost, hu, Bool.and_eq_true] at h
  have := h.2
  cases hr : (runBus (queryDeviceTypes (.addr a)) b).res with
  | ret l => rw [hr] at this; simp [isDSE] at this
  | outOfFuel => rw [hr] at this; simp [isDSE] at this
  | raised e => rw [hr] at this; cases e <;> simp_all [isDSE]

/-- **qdt_collision** — two or more units at the address (answers collide): DALISequenceError. -/
theorem qdt_collision (b : Bus) (hw : TypesWF b) (a : Addr) (u1 u2 : Gear) (rest : List Gear)
    (hu : b.filter (·.addressed a) = u1 :: u2 :: rest) :
    (runBus (queryDeviceTypes (.addr a)) b).res = .raised .DALISequenceError := by
  have h := qdtPost_holds b hw a
  simp only [qdtPost, hu, Bool.and_eq_true] at h
  have := h.2
  cases hr : (runBus (queryDeviceTypes (.addr a)) b).res with
  | ret l => rw [hr] at this; simp [isDSE] at this
  | outOfFuel => rw [hr] at this; simp [isDSE] at this
  | raised e => rw [hr] at this; cases e <;> simp_all [isDSE]

/-- **qdt_adversarial** — against EVERY stream of answers (silence, framing errors, any bytes, in
any order, for ever): the run ends within 257 commands, with DALISequenceError or with exactly the
strictly ascending list it was given, closed by a 254 answer.  No wrong data, no unbounded run.
(This is the theorem that has no proof for the unrepaired loop: `last_seen` was never assigned.) -/
theorem qdt_adversarial (answers : Nat → Resp) (hbytes : ∀ i v, answers i = .byte v → v < 256)
    (d : Dest) (a : Addr) (hd : d.resolve = .ok a) :
    qdtStreamPost answers (runStream (queryDeviceTypes d) answers) = true := by
  rw [(dest_int d a hd).1]; exact qdtStreamPost_holds answers hbytes a

/-- the same, spelled out -/
theorem qdt_adversarial_bounded (answers : Nat → Resp) (hbytes : ∀ i v, answers i = .byte v → v < 256)
    (a : Addr) :
    (runStream (queryDeviceTypes (.addr a)) answers).trace.length ≤ 257 ∧
    ((runStream (queryDeviceTypes (.addr a)) answers).res = .raised .DALISequenceError ∨
      ∃ l, (runStream (queryDeviceTypes (.addr a)) answers).res = .ret l ∧ ascending l = true) := by
  have hstep : ∀ (s : Nat) (c : Cmd), (c = .queryDeviceType a ∨ c = .queryNextDeviceType a) → True →
      True ∧ ∀ v, (streamStep answers s c).1 = .byte v → v < 256 :=
    fun s c _ _ => ⟨trivial, fun v hv => hbytes s v hv⟩
  obtain ⟨g1, g2⟩ := qdt_generic (streamStep answers) (fun _ => True) a hstep 0 trivial
  exact ⟨g2, g1⟩

/-- **queryGroups_spec** — on any bus: one unit at the address ⇒ exactly its 16 membership bits
after exactly the two queries; nobody / several ⇒ DALISequenceError; no membership changes. -/
theorem queryGroups_spec (b : Bus) (d : Dest) (a : Addr) (hd : d.resolve = .ok a) :
    groupsPost b a (runBus (queryGroups d) b) = true := by
  rw [(dest_int d a hd).2]; exact groupsPost_holds b a

/-- **setGroups_spec** — for every bus, every requested 16-bit set, every destination kind and
every iteration order Python's `set` may use: short address (one unit there) ⇒ ADD exactly for
`requested \ current`, REMOVE exactly for `current \ requested`, membership afterwards = request;
nobody / several there ⇒ DALISequenceError and nothing changed; group / broadcast / unaddressed ⇒
sixteen commands and every addressed unit ends with exactly the request (bitwise proof, all
2^16 × 2^16 pairs), every other unit is untouched. -/
theorem setGroups_spec (b : Bus) (a : Addr) (req : Nat) (hreq : req < 65536)
    (hg : ∀ g, a = .group g → g < 16)
    (ord : List Nat → List Nat) (hord : ∀ l, (ord l).Perm l) :
    setGroupsPost b a req (runBus (setGroups (.addr a) (bitsOf req) ord) b) = true := by
  cases a with
  | short n => exact setGroups_short b n req hreq ord hord
  | group g => exact setGroups_full b (.group g) req hreq (fun n h => by cases h) hg ord
  | broadcast => exact setGroups_full b .broadcast req hreq (fun n h => by cases h) hg ord
  | unaddressed => exact setGroups_full b .unaddressed req hreq (fun n h => by cases h) hg ord

/-- a plain `int` destination is the short address -/
theorem setGroups_int (i : Int) (h : 0 ≤ i ∧ i ≤ 63) (groups : List Nat) (ord : List Nat → List Nat) :
    setGroups (.int i) groups ord = setGroups (.addr (.short i.toNat)) groups ord := by
  simp [setGroups, Dest.isShortOrInt, queryGroups, withDest, Dest.resolve, h]

/-! ## Non-vacuity and the behaviour before the repairs -/

def unit3 (types : List Nat) (groups : Nat := 0) : Gear := { short := some 3, types := types, groups := groups }

example : (runBus (queryDeviceTypes (.addr (.short 3))) [unit3 [0, 6], unit3 [1] |>.tick]).res
    = .raised .DALISequenceError := by decide
example : (runBus (queryDeviceTypes (.int 3)) [{ short := some 4 }, unit3 [0, 6]]).res = .ret [0, 6] := by decide
example : (runBus (queryDeviceTypes (.int 3)) [unit3 []]).res = .ret [] := by decide
example : (runBus (queryDeviceTypes (.int 3)) [unit3 [6, 6]]).res = .raised .DALISequenceError := by decide
example : (runBus (queryGroups (.int 3)) [unit3 [] 0x8001]).res = .ret [0, 15] := by decide +kernel
example : ((runBus (setGroups (.addr (.group 3)) (bitsOf 0x8002) id) [unit3 [] 0x8028]).st.map (·.groups))
    = [0x8002] := by decide +kernel

/-- the loop as it was before the repair: `last_seen` stays 0 -/
def qdtLoopOld (a : Addr) : Nat → List Nat → Prog (List Nat)
  | 0, _ => .spin
  | fuel + 1, result =>
    .send (.queryNextDeviceType a) fun r =>
      match r with
      | .none => .fail .DALISequenceError
      | .err => .done result     -- stands for: the error frame's payload was used as data
      | .byte v =>
        if v = 254 then (if result.isEmpty then .fail .DALISequenceError else .done result)
        else if v ≤ 0 then .fail .DALISequenceError
        else qdtLoopOld a fuel (result ++ [v])

/-- before the repair: `[0, 6]` raised, `[6, 6]` and `[8, 6]` were returned, and a unit repeating
6 was followed for as long as the budget lasts (here 1000 commands) -/
example : (runStream (qdtLoopOld (.short 0) 10 []) (fun i => [Resp.byte 0, .byte 6, .byte 254].getD i .none)).res
    = .raised .DALISequenceError := by decide
example : (runStream (qdtLoopOld (.short 0) 10 []) (fun i => [Resp.byte 6, .byte 6, .byte 254].getD i .none)).res
    = .ret [6, 6] := by decide
example : (runStream (qdtLoopOld (.short 0) 10 []) (fun i => [Resp.byte 8, .byte 6, .byte 254].getD i .none)).res
    = .ret [8, 6] := by decide
example : (runStream (qdtLoopOld (.short 0) 1000 []) (fun _ => .byte 6)).res = .outOfFuel := by decide +kernel

/-- before the second repair the full rewrite visited the groups in index order: a unit in
groups {3, 5, 15} asked via group 3 to be in {1, 15} kept group 5 -/
example : ((runBus (groupProg (.group 3) ((List.range 16).map (fun i => ((bitsOf 0x8002).contains i, i)))
    (.done ())) [unit3 [] 0x8028]).st.map (·.groups)) = [0x8022] := by decide +kernel

end DaliVerif.Props.C08
