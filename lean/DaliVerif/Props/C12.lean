import DaliVerif.Proofs.EventSpec
import DaliVerif.Props.C01
/-!
# C12 — event messages: scheme fields and instance-type resolution are exact
-/
set_option linter.unusedSimpArgs false
namespace DaliVerif.Props.C12
open DaliVerif Cmd Spec Frame

/-- **The tie to the current tree**: the regenerated event registries
(`_Event._instance_types`, `_PushbuttonEvent._event_classes`) are the ones
parts 301/303/304 define, and 24-bit frames are tried as device command first,
then as event. -/
theorem event_tables_ok :
    EventTablesOK Gen.tables ∧ lookup Gen.tables.framesizes 24 = some [.device, .event] := by
  decide +kernel

/-- decoding a 24-bit frame whose bit 16 is 0 is `_Event.from_frame`
(falling back to a bare `Command` for the reserved pattern) -/
theorem decode_event (T : Tables) (hfs : lookup T.framesizes 24 = some [.device, .event])
    (d dt : Nat) (m : Option InstMap) (h16 : d / 65536 % 2 = 0) :
    decode T 24 d dt m = (eventFromFrame T ⟨24, d⟩ m).getD (.generic 24 d) := by
  have hdev : deviceFromFrame T ⟨24, d⟩ = none := by
    simp [deviceFromFrame, bit, bitTest_eq, h16]
  unfold decode
  simp only [hfs, List.findSome?_cons, hdev]
  cases eventFromFrame T ⟨24, d⟩ m <;> rfl

/-- **Fields, information bits and event class** — for every 24-bit event
frame (all 2^23) and every instance-type map: the decoded object reports
exactly the source fields the frame's addressing scheme carries (short
address, instance number, device group, instance group, instance type), exactly
the ten bits of event information, interpreted by the class of the instance
type (push-button codes → named events, occupancy bits → movement / occupied /
repeat / sensor flags, light → illuminance, anything else → unknown carrying
the data); frames with the reserved pattern are not events. -/
theorem event_decode_spec (T : Tables) (hE : EventTablesOK T)
    (hfs : lookup T.framesizes 24 = some [.device, .event])
    (d dt : Nat) (m : Option InstMap) (h16 : d / 65536 % 2 = 0) :
    observe (decode T 24 d dt m) = expectedObs d m := by
  rw [decode_event T hfs d dt m h16, ← eventFromFrame_spec T hE d m]
  cases eventFromFrame T ⟨24, d⟩ m <;> rfl

/-- the same for the registries of the current tree -/
theorem event_decode_spec_gen (d dt : Nat) (m : Option InstMap) (h16 : d / 65536 % 2 = 0) :
    observe (decode Gen.tables 24 d dt m) = expectedObs d m :=
  event_decode_spec Gen.tables event_tables_ok.1 event_tables_ok.2 d dt m h16

/-- the instance-scheme frame that carries instance type `t`, instance number
`inum` and event information `info` -/
def instanceFrame (t inum info : Nat) : Nat := 8388608 + t * 131072 + 32768 + inum * 1024 + info

/-- **Resolution through the map = type in the frame** — a device/instance
frame whose (short address, instance number) the map resolves to type `t`
decodes to the same instance number, instance type and event meaning as the
instance-scheme frame that carries `t` itself. -/
theorem devinst_via_map (sa inum info : Nat) (t : Nat) (m : InstMap)
    (hsa : sa < 64) (hin : inum < 32) (hinfo : info < 1024) (ht : t < 32)
    (hm : m.getType sa inum = some (t : Int)) :
    (expectedObs (sa * 131072 + 32768 + inum * 1024 + info) (some m)).map
        (fun o => (o.instanceNumber, o.instanceType, o.meaning)) =
      (expectedObs (instanceFrame t inum info) none).map
        (fun o => (o.instanceNumber, o.instanceType, o.meaning)) := by
  unfold expectedObs eventFields instanceFrame
  have a1 : (sa * 131072 + 32768 + inum * 1024 + info) / 65536 % 2 = 0 := by omega
  have a2 : (sa * 131072 + 32768 + inum * 1024 + info) / 8388608 % 2 = 0 := by omega
  have a3 : (sa * 131072 + 32768 + inum * 1024 + info) / 32768 % 2 = 1 := by omega
  have a4 : (sa * 131072 + 32768 + inum * 1024 + info) / 131072 % 64 = sa := by omega
  have a5 : (sa * 131072 + 32768 + inum * 1024 + info) / 1024 % 32 = inum := by omega
  have a6 : (sa * 131072 + 32768 + inum * 1024 + info) % 1024 = info := by omega
  have b1 : (8388608 + t * 131072 + 32768 + inum * 1024 + info) / 65536 % 2 = 0 := by omega
  have b2 : (8388608 + t * 131072 + 32768 + inum * 1024 + info) / 8388608 % 2 = 1 := by omega
  have b3 : (8388608 + t * 131072 + 32768 + inum * 1024 + info) / 32768 % 2 = 1 := by omega
  have b4 : (8388608 + t * 131072 + 32768 + inum * 1024 + info) / 4194304 % 2 = 0 := by omega
  have b5 : (8388608 + t * 131072 + 32768 + inum * 1024 + info) / 131072 % 32 = t := by omega
  have b6 : (8388608 + t * 131072 + 32768 + inum * 1024 + info) / 1024 % 32 = inum := by omega
  have b7 : (8388608 + t * 131072 + 32768 + inum * 1024 + info) % 1024 = info := by omega
  simp [a1, a2, a3, a4, a5, a6, b1, b2, b3, b4, b5, b6, b7, hm]

/-- **Ambiguous exactly when the map has no entry** (device/instance scheme). -/
theorem ambiguous_iff_absent (T : Tables) (hE : EventTablesOK T)
    (hfs : lookup T.framesizes 24 = some [.device, .event]) (d dt : Nat) (m : Option InstMap)
    (h16 : d / 65536 % 2 = 0) (h23 : d / 8388608 % 2 = 0) (h15 : d / 32768 % 2 = 1) :
    isAmbiguous (decode T 24 d dt m) = true ↔
      (m.bind fun mm => mm.getType (d / 131072 % 64) (d / 1024 % 32)) = none := by
  rw [decode_event T hfs d dt m h16]
  unfold eventFromFrame
  simp only [bit, bitTest_eq, slice, getSliceRaw_eq, Nat.reducePow, Nat.reduceAdd, Nat.reduceSub,
    Nat.div_one, h16, h23, h15]
  simp only [decide_true, decide_false, Bool.not_false, Bool.not_true, Bool.and_true, Bool.true_and,
    Bool.false_eq_true, if_false, if_true, Bool.and_false, Bool.false_and, Nat.zero_ne_one,
    Nat.reduceEqDiff]
  cases hg : (m.bind fun mm => mm.getType (d / 131072 % 64) (d / 1024 % 32)) with
  | none => simp [isAmbiguous]
  | some t =>
    simp only [Option.getD_some, reduceCtorEq, iff_false, Bool.not_eq_true]
    unfold eventOfType
    simp only []
    repeat' split
    all_goals rfl

/-- **Re-decoding an ambiguous event later with a map gives the same result as
decoding the frame with that map** (and `None` if it is still ambiguous). -/
theorem retry_eq_direct (T : Tables) (hT : TableOK T) (d dt : Nat) (m : InstMap)
    (hd : d < 2 ^ 24) :
    retryDecode T (decode T 24 d dt none) m =
      if isAmbiguous (decode T 24 d 0 (some m)) then none else some (decode T 24 d 0 (some m)) := by
  unfold retryDecode
  rw [C01.encode_decode T hT 24 d dt none hd]

/-- **Map contents**: an entry added (through any of the three argument forms,
which all reduce to integers) is found under its key, replaces an earlier entry
for the same key and leaves every other key alone. -/
theorem map_build (m : InstMap) (sa inum sa' inum' : Nat) (t : Int) :
    (m.addType sa inum t).getType sa' inum' =
      if (sa, inum) = (sa', inum') then some t else m.getType sa' inum' := by
  unfold InstMap.addType InstMap.getType
  by_cases h : (sa, inum) = (sa', inum')
  · simp [h]
  · have : ((sa, inum) == (sa', inum')) = false := by simpa using h
    simp [List.find?_cons, this, h]

/-! ### non-vacuity -/
example : observe (decode Gen.tables 24 ((5 <<< 17) ||| (1 <<< 15) ||| (3 <<< 10) ||| 6) 0
    (some [((5, 3), 3)])) =
    some ⟨some 5, some 3, none, none, some 3, .occupancy false true true false⟩ := by decide +kernel
example : observe (decode Gen.tables 24 (instanceFrame 1 7 11) 0 none) =
    some ⟨none, some 7, none, none, some 1, .pushbutton "LongPressRepeat"⟩ := by decide +kernel

end DaliVerif.Props.C12
