import DaliVerif.Proofs.GearSeqC07
/-!
# C07 — commissioning terminates and assigns distinct, permitted short addresses

Property theorems only.  `findNext`, `inner`, `outer`, `commissioning` (`Model/GearSeq.lean`)
model `_find_next` and `Commissioning` of `dali/sequences.py` (tied by lock-step execution of
the real generator, every command / progress / sleep object); the specification bus is
`Spec/GearBus.lean`; the property's clauses as a decidable check are `Spec/GearComm.lean`
(`commCheck`), evaluated on every lock-step run.

**What is proved here** (for every population, every interval, every environment):
`findNext_spec`, `findNext_run`, `commissioning_ends_with_terminate`, `commissioning_all_disabled`.

**What is not proved yet** (full statements, kept visible; checked by `commCheck` on sampled runs only):

* `round_inv` — one RANDOMISE round against a bus preserves: addresses handed out so far are
  pairwise distinct, lie in the permitted list (in its order), avoid every address that answered
  QUERY CONTROL GEAR PRESENT, each was programmed into the unit found at that step,
  non-participants are untouched, `|handed out| = min(#found, |permitted|)`.
* `commissioning_spec` — for every bus, every duplicate-free permitted list ⊆ 0..63, both
  re-address modes, dry-run on/off and every finite list of rounds whose last round is clash-free:
  `commCheck b avail readdress dry (runBus (commissioning rounds avail readdress dry) b) = []`
  (clauses ends / raise / distinct / permitted / inuse / others / dry / count / holds / bound).
* `bus_counts` — the specification bus restricted to SEARCHADDR H/M/L + COMPARE is a counting
  environment `cstep R` for `R` = random addresses of its ENABLED units (the refinement that
  carries `findNext_run` over to `runBus`).
-/
namespace DaliVerif.Props.C07
open DaliVerif GearSeq

/-- **findNext_spec** — for every list `R` of random addresses of the enabled units, all `≥ low`,
and every interval `low ≤ high` of width `< 2^depth`: the search returns `none` iff no address is
`≤ high`; `clash` iff the least address is shared by two or more units; otherwise `found m` with
`m` the least address, held by exactly one unit. -/
theorem findNext_spec (R : List Nat) (depth low high : Nat) (hle : low ≤ high)
    (hw : high - low < 2 ^ depth) (hR : ∀ r ∈ R, low ≤ r) :
    FN.Spec R high (FN.findNext R (depth + 1) low high) :=
  FN.findNext_spec R depth low high hle hw hR

/-- **findNext_run** — the model of the generator `_find_next`, run against any environment that
answers COMPARE by counting the enabled units at or below the search address, returns exactly
`FN.findNext R`; it sends at most `8·depth + 4` commands (196 for the whole 24-bit space, 4 when
nothing is left) and leaves the search address at the unit found — which is what the following
PROGRAM SHORT ADDRESS / WITHDRAW act on. -/
theorem findNext_run (R : List Nat) (depth low high s : Nat) (hle : low ≤ high)
    (hw : high - low < 2 ^ depth) (hh : high < 16777216) (hR : ∀ r ∈ R, low ≤ r) :
    ((findNext (depth + 1) low high).run (cstep R) s).res = .ret (FN.findNext R (depth + 1) low high) ∧
    ((findNext (depth + 1) low high).run (cstep R) s).trace.length ≤ 8 * depth + 4 ∧
    (∀ m, FN.findNext R (depth + 1) low high = .found m →
      ((findNext (depth + 1) low high).run (cstep R) s).st = m) := by
  obtain ⟨h1, h2, _, h4⟩ := findNext_run_aux R depth low high s hle hw hh hR
  exact ⟨h1, h2, h4⟩

/-- the call made by `Commissioning`: the whole 24-bit space from `low`, depth budget 25 -/
theorem findNext_run_full (R : List Nat) (low s : Nat) (hl : low ≤ HIGH) (hR : ∀ r ∈ R, low ≤ r) :
    ((findNext 25 low HIGH).run (cstep R) s).res = .ret (FN.findNext R 25 low HIGH) ∧
    ((findNext 25 low HIGH).run (cstep R) s).trace.length ≤ 196 ∧
    FN.Spec R HIGH (FN.findNext R 25 low HIGH) := by
  have hw : HIGH - low < 2 ^ 24 := by simp [HIGH]; omega
  obtain ⟨h1, h2, _⟩ := findNext_run R 24 low HIGH s hl hw (by decide) hR
  exact ⟨h1, h2, FN.findNext_spec R 24 low HIGH hl hw hR⟩

/-- **commissioning_ends_with_terminate** — in every environment whatsoever (any bus, any answer
stream), for every argument combination: if `Commissioning` returns normally, the last command
it sent is TERMINATE. -/
theorem commissioning_ends_with_terminate {σ : Type} (step : σ → Cmd → Resp × σ) (rounds : Nat)
    (av : Option (List Nat)) (re dry : Bool) (s : σ) (r : List (Nat × Nat))
    (h : ((commissioning rounds av re dry).run step s).res = .ret r) :
    ∃ t, ((commissioning rounds av re dry).run step s).trace = t ++ [Cmd.terminate] :=
  commissioning_endsT step rounds av re dry s r h

/-- **commissioning_all_disabled** — on every bus of any size: after a normal return every unit is
out of initialisation mode (initialisationState = DISABLED). -/
theorem commissioning_all_disabled (b : Bus) (rounds : Nat) (av : Option (List Nat)) (re dry : Bool)
    (r : List (Nat × Nat)) (h : (runBus (commissioning rounds av re dry) b).res = .ret r) :
    ∀ u ∈ (runBus (commissioning rounds av re dry) b).st, u.init = .disabled :=
  all_disabled_of_endsT _ b (commissioning_endsT Bus.exec rounds av re dry b) r h

/-! ## Non-vacuity -/

example : FN.findNext [7, 3, 9] 25 0 0xffffff = .found 3 := by decide
example : FN.findNext [7, 3, 3] 25 0 0xffffff = .clash := by decide
example : FN.findNext [0, 0xffffff] 25 0 0xffffff = .found 0 := by decide
example : FN.findNext [0xffffff] 25 1 0xffffff = .found 0xffffff := by decide
example : FN.findNext [] 25 0 0xffffff = .none := by decide

end DaliVerif.Props.C07
