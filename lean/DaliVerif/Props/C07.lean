import DaliVerif.Props.GearCmds
import DaliVerif.Proofs.GearSeqC07k
/-!
# C07 — commissioning terminates and assigns distinct, permitted short addresses

Property theorems only.  `findNext`, `inner`, `outer`, `commissioning` (`Model/GearSeq.lean`)
model `_find_next` and `Commissioning` of `dali/sequences.py` (tied by lock-step execution of
the real generator, every command / progress / sleep object); the specification bus is
`Spec/GearBus.lean`; the property's clauses as a decidable check are `Spec/GearComm.lean`
(`commCheck`), evaluated on every lock-step run.

**What is proved here**, for every bus size, every population, every stream of random draws
(hypotheses: random addresses and draws are 24-bit, `WF`; the permitted list is duplicate-free within 0..63):

* the search: `findNext_spec`, `findNext_run(_full)`, `bus_counts` (the bus is a counting environment),
  `findNext_on_bus`;
* one iteration: `inner_step`; one round: `round_inv`;
* the whole sequence, clause by clause: `commissioning_ends_with_terminate`, `commissioning_all_disabled`,
  `commissioning_addresses` (distinct / permitted / not in use / none in a dry run),
  `commissioning_count` (every participant gets an address while permitted addresses remain),
  `commissioning_others` (non-participants keep their address), `commissioning_dry` (a dry run changes no
  short address), `commissioning_raise` + `unconfirmed_verify_raises` (ProgramShortAddressFailure),
  `commissioning_bound` (command bound),
  `commissioning_holds` (single-round runs: the participants hold exactly the addresses handed out),
  `commissioning_terminates` (the model's round budget is not exhausted once the participants' draws of some
  round are pairwise distinct);
* all of them at once: `commissioning_spec` — `commCheck … = []` for every run that does not exhaust the round
  budget (i.e. whose last round is clash-free), and `commissioning_spec_separating` under the explicit hypothesis
  on the draw streams.

**What is not claimed** (DESIGN §6): that the participants' *final* addresses are pairwise distinct after two or
more rounds — they need not be (the re-draw hazard; last `example` below); the property's letter (addresses
*handed out* are distinct) is what is proved.
-/
namespace DaliVerif.Props.C07
open DaliVerif GearSeq

/-- the commands of these sequences are flagged `sendtwice` exactly where the standard requires a repetition
(regenerated table; shared statement `Props.GearCmds`) -/
theorem cmd_sendtwice_gen :
    GearCmds.sampleCmds.map (fun c => (c.cls, c.twiceRequired)) =
      Gen.GearSeqEnums.cmdSamples.map (fun r => (r.1, r.2.2.2.1)) := GearCmds.cmd_sendtwice_gen

theorem cmd_frames_gen :
    GearCmds.sampleCmds.map (fun c => (c.cls, c.frame, c.devicetype)) =
      Gen.GearSeqEnums.cmdSamples.map (fun r => (r.1, r.2.1, r.2.2.1)) := GearCmds.cmd_frames_gen


/-- **findNext_spec** — for every list `R` of random addresses of the enabled units, all `≥ low`,
and every interval `low ≤ high` of width `< 2^depth`: the search returns `none` iff no address is
`≤ high`; `clash` iff the least address is shared by two or more units; otherwise `found m` with
`m` the least address, held by exactly one unit. -/
theorem findNext_spec (R : List Nat) (depth low high : Nat) (hle : low ≤ high)
    (hw : high - low < 2 ^ depth) (hR : ∀ r ∈ R, low ≤ r) :
    FN.Spec R high (FN.findNext R (depth + 1) low high) :=
  FN.findNext_spec R depth low high hle hw hR

/-- **findNext_run** — the model of the generator `_find_next`, run against any environment that
answers COMPARE by counting the enabled units at or below the search address, returns exactly
`FN.findNext R`; it sends at most `8·depth + 4` commands (196 for the whole 24-bit space, 4 when
nothing is left) and leaves the search address at the unit found — which is what the following
PROGRAM SHORT ADDRESS / WITHDRAW act on. -/
theorem findNext_run (R : List Nat) (depth low high s : Nat) (hle : low ≤ high)
    (hw : high - low < 2 ^ depth) (hh : high < 16777216) (hR : ∀ r ∈ R, low ≤ r) :
    ((findNext (depth + 1) low high).run (cstep R) s).res = .ret (FN.findNext R (depth + 1) low high) ∧
    ((findNext (depth + 1) low high).run (cstep R) s).trace.length ≤ 8 * depth + 4 ∧
    (∀ m, FN.findNext R (depth + 1) low high = .found m →
      ((findNext (depth + 1) low high).run (cstep R) s).st = m) := by
  obtain ⟨h1, h2, _, h4⟩ := findNext_run_aux R depth low high s hle hw hh hR
  exact ⟨h1, h2, h4⟩

/-- the call made by `Commissioning`: the whole 24-bit space from `low`, depth budget 25 -/
theorem findNext_run_full (R : List Nat) (low s : Nat) (hl : low ≤ HIGH) (hR : ∀ r ∈ R, low ≤ r) :
    ((findNext 25 low HIGH).run (cstep R) s).res = .ret (FN.findNext R 25 low HIGH) ∧
    ((findNext 25 low HIGH).run (cstep R) s).trace.length ≤ 196 ∧
    FN.Spec R HIGH (FN.findNext R 25 low HIGH) := by
  have hw : HIGH - low < 2 ^ 24 := by simp [HIGH]; omega
  obtain ⟨h1, h2, _⟩ := findNext_run R 24 low HIGH s hl hw (by decide) hR
  exact ⟨h1, h2, FN.findNext_spec R 24 low HIGH hl hw hR⟩

/-- **commissioning_ends_with_terminate** — in every environment whatsoever (any bus, any answer
stream), for every argument combination: if `Commissioning` returns normally, the last command
it sent is TERMINATE. -/
theorem commissioning_ends_with_terminate {σ : Type} (step : σ → Cmd → Resp × σ) (rounds : Nat)
    (av : Option (List Nat)) (re dry : Bool) (s : σ) (r : List (Nat × Nat))
    (h : ((commissioning rounds av re dry).run step s).res = .ret r) :
    ∃ t, ((commissioning rounds av re dry).run step s).trace = t ++ [Cmd.terminate] :=
  commissioning_endsT step rounds av re dry s r h

/-- **commissioning_all_disabled** — on every bus of any size: after a normal return every unit is
out of initialisation mode (initialisationState = DISABLED). -/
theorem commissioning_all_disabled (b : Bus) (rounds : Nat) (av : Option (List Nat)) (re dry : Bool)
    (r : List (Nat × Nat)) (h : (runBus (commissioning rounds av re dry) b).res = .ret r) :
    ∀ u ∈ (runBus (commissioning rounds av re dry) b).st, u.init = .disabled :=
  all_disabled_of_endsT _ b (commissioning_endsT Bus.exec rounds av re dry b) r h

/-- **bus_counts** — the specification bus restricted to SEARCHADDR H/M/L + COMPARE *is* a counting
environment: on a bus whose units in initialisation mode all hold the search address `s` (`Synced`), each of
these commands is answered exactly as `cstep R` answers it, `R = enR b` the random addresses of the ENABLED
units, and the relation (`Synced`, same `R`) is preserved.  (Through `run_sim` this carries every run of
`_find_next` over to `runBus`: `findNext_on_bus`.) -/
theorem bus_counts (b : Bus) (s : Nat) (c : Cmd) (hc : IsSearch c) (hs : Synced b s) :
    (Bus.exec b c).1 = (cstep (enR b) s c).1 ∧ Synced (Bus.exec b c).2 (cstep (enR b) s c).2 ∧
      enR (Bus.exec b c).2 = enR b := by
  obtain ⟨h1, h2, h3⟩ := bus_counts_aux (enR b) b s c hc ⟨hs, rfl⟩
  exact ⟨h1, h2, h3⟩

/-- **findNext_on_bus** — `_find_next(low, 0xFFFFFF)` run against *any* bus (any size, any search addresses
to begin with) whose ENABLED units all have random address `≥ low`: it returns what `FN.findNext` says for
the ENABLED units' random addresses (least address / clash / none — `FN.Spec`), within 196 commands, leaves
every unit in initialisation mode with its search address at the unit found, and changes no unit's
short address, initialisation state, random address, draw stream or fault flags (`view`). -/
theorem findNext_on_bus (b : Bus) (low : Nat) (hl : low ≤ HIGH) (hR : ∀ r ∈ enR b, low ≤ r) :
    (runBus (findNext 25 low HIGH) b).res = .ret (FN.findNext (enR b) 25 low HIGH) ∧
    FN.Spec (enR b) HIGH (FN.findNext (enR b) 25 low HIGH) ∧
    (runBus (findNext 25 low HIGH) b).trace.length ≤ 196 ∧
    (∀ m, FN.findNext (enR b) 25 low HIGH = .found m → Synced (runBus (findNext 25 low HIGH) b).st m) ∧
    view (runBus (findNext 25 low HIGH) b).st = view b := by
  have hw : HIGH - low < 2 ^ 24 := by simp [HIGH]; omega
  obtain ⟨h1, h2, _, h4, _⟩ := findNext_bus b 24 low HIGH hl hw (by decide) hR
  exact ⟨h1, FN.findNext_spec (enR b) 24 low HIGH hl hw hR, h2, h4, view_findNext 25 low HIGH b⟩

/-- **inner_step** — one iteration of the inner loop after the search found `m` (so every unit in
initialisation mode has search address `m`, and exactly one ENABLED unit has random address `m`):
PROGRAM SHORT ADDRESS `new`, VERIFY, WITHDRAW store `new` in exactly the units in initialisation mode with random
address `m` that do store (`V.prog`) and withdraw exactly the ENABLED unit(s) with random address `m`
(`V.wd`); in a dry run only WITHDRAW is sent and no short address changes; the answer to VERIFY is YES
iff some such unit holds `new` and confirms — always on a fault-free bus; the number of ENABLED units drops by
one, the number of WITHDRAWN units rises by one, every unit still ENABLED has a random address `≠ m`. -/
theorem inner_step (b : Bus) (m new : Nat) (hs : Synced b m) (hm : m ∈ enR b) (hc : (enR b).count m = 1) :
    view (Bus.exec (Bus.exec (Bus.exec b (.programShort new)).2 (.verifyShort new)).2 .withdraw).2
      = ((view b).map (V.prog m new)).map (V.wd m) ∧
    view (Bus.exec b .withdraw).2 = (view b).map (V.wd m) ∧
    (NoFault (view b) → (Bus.exec (Bus.exec b (.programShort new)).2 (.verifyShort new)).1.isYes = true) ∧
    ((Bus.exec (Bus.exec b (.programShort new)).2 (.verifyShort new)).1.isYes = true ↔
      ∃ v ∈ (view b).map (V.prog m new), v.init ≠ .disabled ∧ v.short = some new ∧ v.noVerify = false) ∧
    (∀ L, enRV L = enR b → (enRV (L.map (V.wd m))).length + 1 = (enR b).length ∧
      nWd (L.map (V.wd m)) = nWd L + 1 ∧ ∀ r ∈ enRV (L.map (V.wd m)), r ∈ enR b ∧ r ≠ m) := by
  have hs2 := Synced_prog b new m hs
  have hs3 := Synced_verify _ new m hs2
  refine ⟨?_, view_withdraw b m hs, ?_, ?_, ?_⟩
  · rw [view_withdraw _ m hs3, view_verify, view_program b m new hs]
  · intro nf
    rw [verify_isYes, view_program b m new hs]
    exact verify_confirms (view b) m new nf (by rw [← enR_view]; exact hm)
  · rw [verify_isYes, view_program b m new hs]
  · intro L hL
    have h1 := wd_enRV_len L m
    have h2 := wd_nWd L m
    have h3 := wd_enRV_mem L m
    rw [hL] at h1 h2 h3
    rw [hc] at h1 h2
    exact ⟨by omega, h2, h3⟩

/-- **round_inv** — one RANDOMISE round (the inner `while low is not None` loop from `low = 0`)
against any bus whose ENABLED units have 24-bit random addresses, any permitted list, any ghost log:
the loop budget is never exhausted; the PROGRAM SHORT ADDRESS arguments are a prefix of the permitted list, in
order (none in a dry run); on leaving the loop the ghost log grew by exactly those addresses and the rest of
the permitted list is handed on; (#ENABLED + #WITHDRAWN) is unchanged and
`|handed out| = min(#WITHDRAWN, |handed out| + |permitted left|)` is preserved; leaving as "finished" means no
unit is ENABLED any more; pairwise distinct random addresses exclude a clash; the only exception is
ProgramShortAddressFailure, not in a dry run, only with a faulty unit on the bus, directly after
PROGRAM / VERIFY SHORT ADDRESS; at most `199·#ENABLED + 198` commands; a unit that is not in initialisation mode
keeps its short address; and (not a dry run) at the end of the round every address logged in it sits in every
storing unit in initialisation mode that has the random address found with it — the unit found. -/
theorem round_inv (dry : Bool) (avail : List Nat) (handed : List (Nat × Nat)) (b : Bus)
    (hwf : ∀ r ∈ enR b, r ≤ HIGH) :
    let o := runBus (inner dry (HIGH + 2) 0 avail handed) b
    o.res ≠ .outOfFuel ∧
    (dry = false → progArgs o.trace <+: avail) ∧ (dry = true → progArgs o.trace = []) ∧
    (∀ av' h', (o.res = .ret (.clash av' h') ∨ o.res = .ret (.finished av' h')) →
      h'.map Prod.snd ++ av' = handed.map Prod.snd ++ avail ∧
      (dry = false → progArgs o.trace ++ av' = avail) ∧
      (enR o.st).length + nWd (view o.st) = (enR b).length + nWd (view b) ∧
      (handed.length = min (nWd (view b)) (handed.length + avail.length) →
        h'.length = min (nWd (view o.st)) (h'.length + av'.length))) ∧
    (∀ av' h', o.res = .ret (.finished av' h') → enR o.st = []) ∧
    ((enR b).Nodup → ∀ av' h', o.res ≠ .ret (.clash av' h')) ∧
    (∀ e, o.res = .raised e → e = .ProgramShortAddressFailure ∧ dry = false ∧ ¬ NoFault (view b) ∧
      ∃ t a, o.trace = t ++ [Cmd.programShort a, Cmd.verifyShort a]) ∧
    o.trace.length ≤ 199 * (enR b).length + 198 ∧
    (∃ g : Gear → Gear, o.st = b.map g ∧ ∀ u, u.init = .disabled → (g u).short = u.short) ∧
    (dry = false → ∀ av' h', (o.res = .ret (.clash av' h') ∨ o.res = .ret (.finished av' h')) →
      ∀ p ∈ h'.drop handed.length, ∀ v ∈ view o.st, v.init ≠ .disabled → v.random = p.1 → v.noStore = false →
        v.short = some p.2) := by
  dsimp only
  have hpre : ∀ r ∈ enRV (view b), 0 ≤ r ∧ r ≤ HIGH := by
    intro r hr; rw [← enR_view] at hr; exact ⟨Nat.zero_le _, hwf r hr⟩
  have P := inner_bus dry (HIGH + 2) 0 avail handed b (Nat.zero_le _) (by omega) hpre
  have S := inner_syn Bus.exec dry (HIGH + 2) 0 avail handed b
  have hcls := (inner_only dry (HIGH + 2) 0 avail handed).trace Bus.exec b
  have e : ∀ x : Bus, enRV (view x) = enR x := fun x => (enR_view x).symm
  have hfin := P.fin
  have hret := P.ret
  have hlen := P.len
  have hnc := P.noclash
  simp only [e] at hfin hret hlen hnc
  refine ⟨P.nofuel, S.pre, ?_, ?_, hfin, hnc, ?_, ?_, ?_, ?_⟩
  · intro hd
    apply progArgs_nil
    intro c hc a e
    have := hcls c hc
    rw [e, hd] at this
    cases this
  · intro av' h' hr
    obtain ⟨a1, a2⟩ := S.ret av' h' hr
    obtain ⟨b1, _, b3⟩ := hret av' h' hr
    exact ⟨a1, a2, b1, b3⟩
  · intro e he
    obtain ⟨a1, a2, a3⟩ := S.raise e he
    exact ⟨a1, a2, fun nf => P.raise nf e he, a3⟩
  · omega
  · refine ⟨fun u => (runBus (inner dry (HIGH + 2) 0 avail handed) b).trace.foldl Gear.execSt u, runBus_st _ b, ?_⟩
    intro u hu
    exact fold_disabled_stays dry _ (fun c hc => Or.inl (Or.inr (hcls c hc))) u hu
  · intro hd av' h' hr p hp
    subst hd
    obtain ⟨low', G⟩ := inner_prg handed.length (HIGH + 2) 0 avail handed b (Nat.zero_le _) hpre
      ⟨Nat.le_refl _, by simp⟩ av' h' hr
    exact (G.2 p hp).2

/-- **commissioning_addresses** (clauses *distinct*, *permitted*, *in use*, *dry*) — for every bus with
24-bit random addresses, every duplicate-free permitted list within 0..63, both modes, any number of rounds,
whatever the outcome: the addresses sent in PROGRAM SHORT ADDRESS are, in order, an initial segment of the
permitted list with the addresses in use removed (all of it when re-addressing); they are pairwise distinct,
permitted, and — when not re-addressing — none of them is the short address of any unit on the bus before the
run; a dry run sends none. -/
theorem commissioning_addresses (rounds : Nat) (avail : Option (List Nat)) (re dry : Bool) (b : Bus)
    (hwf : WF (view b)) (hnd : (avail.getD (List.range 64)).Nodup)
    (h64 : ∀ a ∈ avail.getD (List.range 64), a < 64) :
    let P := progArgs (runBus (commissioning rounds avail re dry) b).trace
    let avail' := if re then avail.getD (List.range 64)
      else (avail.getD (List.range 64)).filter (fun a => !(b.filterMap (·.short)).contains a)
    P = avail'.take P.length ∧ P.Nodup ∧ (∀ a ∈ P, a ∈ avail.getD (List.range 64)) ∧
    (re = false → ∀ a ∈ P, ∀ u ∈ b, u.short ≠ some a) ∧ (dry = true → P = []) := by
  intro P avail'
  have C := commissioning_bus rounds avail re dry b hwf hnd h64
  have hpre : P <+: avail' := by
    have := C.pre
    simp only [availAfter, inUseL_view] at this
    exact this
  have hsub : avail'.Sublist (avail.getD (List.range 64)) := by
    show (if re then _ else _ : List Nat).Sublist _
    split
    · exact List.Sublist.refl _
    · exact List.filter_sublist
  refine ⟨List.prefix_iff_eq_take.mp hpre, (hpre.sublist.trans hsub).nodup hnd,
    fun a ha => (hpre.sublist.trans hsub).subset ha, ?_, C.dryP⟩
  intro hre a ha u hu hs
  have ha' : a ∈ avail' := hpre.sublist.subset ha
  have e : avail' = (avail.getD (List.range 64)).filter (fun a => !(b.filterMap (·.short)).contains a) := by
    show (if re then _ else _ : List Nat) = _
    rw [hre]; rfl
  rw [e, List.mem_filter] at ha'
  have : a ∈ b.filterMap (·.short) := List.mem_filterMap.mpr ⟨u, hu, hs⟩
  have := List.contains_iff_mem.mpr this
  rw [this] at ha'
  exact absurd ha'.2 (by decide)

/-- **commissioning_count** — a normal, non-dry return has handed out exactly
`min(#participants, #permitted addresses left)` addresses: participants are all units when re-addressing,
otherwise exactly the unaddressed ones; i.e. every participant gets an address as long as permitted
addresses remain. -/
theorem commissioning_count (rounds : Nat) (avail : Option (List Nat)) (re : Bool) (b : Bus)
    (hwf : WF (view b)) (hnd : (avail.getD (List.range 64)).Nodup)
    (h64 : ∀ a ∈ avail.getD (List.range 64), a < 64) (h : List (Nat × Nat))
    (hret : (runBus (commissioning rounds avail re false) b).res = .ret h) :
    (progArgs (runBus (commissioning rounds avail re false) b).trace).length =
      min (b.filter (fun u => re || u.short.isNone)).length
        (if re then avail.getD (List.range 64)
         else (avail.getD (List.range 64)).filter (fun a => !(b.filterMap (·.short)).contains a)).length := by
  have C := commissioning_bus rounds avail re false b hwf hnd h64
  have := C.count h hret rfl
  simp only [availAfter, inUseL_view] at this
  rw [this]
  congr 1
  rw [parts, view, List.countP_map, List.countP_eq_length_filter]
  rfl

/-- **commissioning_raise** (ProgramShortAddressFailure) — the only exception `Commissioning` can end with is
ProgramShortAddressFailure; it is raised only when not a dry run, only directly after PROGRAM SHORT ADDRESS a /
VERIFY SHORT ADDRESS a (the unconfirmed address), and only on a bus with a unit that does not store or does
not confirm.  (The converse — an unconfirmed VERIFY raises — is `inner_step` + the model's
`if r.isYes … else fail`, used in `afterFound_bus`.) -/
theorem commissioning_raise (rounds : Nat) (avail : Option (List Nat)) (re dry : Bool) (b : Bus)
    (hwf : WF (view b)) (hnd : (avail.getD (List.range 64)).Nodup)
    (h64 : ∀ a ∈ avail.getD (List.range 64), a < 64) (e : PyErr)
    (he : (runBus (commissioning rounds avail re dry) b).res = .raised e) :
    e = .ProgramShortAddressFailure ∧ dry = false ∧ (∃ u ∈ b, u.noStore = true ∨ u.noVerify = true) ∧
    ∃ t a, (runBus (commissioning rounds avail re dry) b).trace = t ++ [Cmd.programShort a, Cmd.verifyShort a] := by
  have C := commissioning_bus rounds avail re dry b hwf hnd h64
  obtain ⟨a1, a2, a3, a4⟩ := C.raise e he
  refine ⟨a1, a2, ?_, a4⟩
  apply Classical.byContradiction
  intro hno
  apply a3
  intro v hv
  simp only [view, List.mem_map] at hv
  obtain ⟨u, hu, rfl⟩ := hv
  have h1 : ¬ u.noStore = true := fun h => hno ⟨u, hu, Or.inl h⟩
  have h2 : ¬ u.noVerify = true := fun h => hno ⟨u, hu, Or.inr h⟩
  simp only [Gear.v]
  exact ⟨by simpa using h1, by simpa using h2⟩

/-- **unconfirmed_verify_raises** (ProgramShortAddressFailure, the "if" direction) — in every environment: the
inner-loop body after the search found a unit (`afterFound`; `inner_eq` shows by `rfl` that this *is* the body
of `inner`), not a dry run, with a permitted address `new` left: it sends PROGRAM SHORT ADDRESS `new`, VERIFY SHORT
ADDRESS `new`, and if the answer is not YES it raises ProgramShortAddressFailure at once. -/
theorem unconfirmed_verify_raises {σ : Type} (step : σ → Cmd → Resp × σ) (fuel m new : Nat) (avail' : List Nat)
    (handed : List (Nat × Nat)) (s : σ)
    (h : (step (step s (.programShort new)).2 (.verifyShort new)).1.isYes = false) :
    ((afterFound false fuel m (new :: avail') handed).run step s).res = .raised .ProgramShortAddressFailure ∧
    ((afterFound false fuel m (new :: avail') handed).run step s).trace =
      [Cmd.programShort new, Cmd.verifyShort new] := by
  simp [afterFound, Prog.run, Prog.tell, h]

/-- **commissioning_bound** — the run sends at most `rounds·(n+1)·202 + 140` commands, `rounds` the number
of RANDOMISE commands sent, `n` the number of units. -/
theorem commissioning_bound (rounds : Nat) (avail : Option (List Nat)) (re dry : Bool) (b : Bus)
    (hwf : WF (view b)) (hnd : (avail.getD (List.range 64)).Nodup)
    (h64 : ∀ a ∈ avail.getD (List.range 64), a < 64) :
    (runBus (commissioning rounds avail re dry) b).trace.length ≤
      countRandomise (runBus (commissioning rounds avail re dry) b).trace * (b.length + 1) * 202 + 140 := by
  have C := commissioning_bus rounds avail re dry b hwf hnd h64
  have h := C.len
  have hl : (view b).length = b.length := by simp [view]
  rw [hl] at h
  have : countRandomise (runBus (commissioning rounds avail re dry) b).trace * (199 * b.length + 199) ≤
      countRandomise (runBus (commissioning rounds avail re dry) b).trace * (b.length + 1) * 202 := by
    rw [Nat.mul_assoc]
    exact Nat.mul_le_mul_left _ (by omega)
  omega

/-- **commissioning_terminates** — the Python loop has no bound on the number of RANDOMISE rounds; the model
follows `rounds` of them.  If the random addresses the participants hold after `k + 1` RANDOMISE commands
(`randAfter (k+1)`: the `(k+1)`-th draw of the unit's stream, the last one when the stream is shorter) are
pairwise distinct for some `k < rounds` — the draw streams eventually separate —, that budget is not
exhausted: the run returns or raises within `k + 1` rounds. -/
theorem commissioning_terminates (rounds : Nat) (avail : Option (List Nat)) (re dry : Bool) (b : Bus) (k : Nat)
    (hwf : WF (view b)) (hk : k < rounds)
    (hsep : ((b.filter (fun u => re || u.short.isNone)).map
      (fun u => randAfter (k + 1) u.random u.draws)).Nodup) :
    (runBus (commissioning rounds avail re dry) b).res ≠ .outOfFuel :=
  GearSeq.commissioning_terminates rounds avail re dry b k hwf hk (by rw [partRand_view]; exact hsep)

/-- **commissioning_holds** — a non-dry run on a fault-free bus that returns after a single RANDOMISE round:
for every address `a`, the number of participants (units of the initial bus, position by position, that are
re-addressed / were unaddressed) whose final short address is `a` equals the number of times `a` was handed
out — so, the addresses handed out being pairwise distinct, the participants hold exactly those addresses,
one each.  (After two or more rounds this need not hold: last `example`.) -/
theorem commissioning_holds (rounds : Nat) (avail : Option (List Nat)) (re : Bool) (b : Bus)
    (hwf : WF (view b)) (hnf : NoFault (view b)) (h : List (Nat × Nat))
    (hr : (runBus (commissioning rounds avail re false) b).res = .ret h)
    (hc : countRandomise (runBus (commissioning rounds avail re false) b).trace = 1) (a : Nat) :
    b.countP (fun u => (re || u.short.isNone) &&
        (((runBus (commissioning rounds avail re false) b).trace.foldl Gear.execSt u).short == some a)) =
      (progArgs (runBus (commissioning rounds avail re false) b).trace).count a :=
  GearSeq.commissioning_holds rounds avail re b hwf hnf h hr hc a

/-- **commissioning_spec** — for every bus of any size with 24-bit random addresses, any pre-existing short
addresses (duplicates included), every duplicate-free permitted list within 0..63, both re-address modes, dry run
or not, and every number of rounds the model follows such that the run does not exhaust them (that is: the last
round followed is clash-free): the property's clause checker finds nothing —
ends / raise / distinct / permitted / inuse / others / dry / count / holds / bound all hold. -/
theorem commissioning_spec (rounds : Nat) (avail : Option (List Nat)) (re dry : Bool) (b : Bus)
    (hwf : WF (view b)) (hnd : (avail.getD (List.range 64)).Nodup)
    (h64 : ∀ a ∈ avail.getD (List.range 64), a < 64)
    (hterm : (runBus (commissioning rounds avail re dry) b).res ≠ .outOfFuel) :
    commCheck b avail re dry (runBus (commissioning rounds avail re dry) b).void = [] :=
  commissioning_spec_aux rounds avail re dry b hwf hnd h64 hterm

/-- **commissioning_spec_separating** — the same under an explicit hypothesis on the random-draw streams:
the participants' random addresses after `k + 1 ≤ rounds` RANDOMISE commands are pairwise distinct. -/
theorem commissioning_spec_separating (rounds : Nat) (avail : Option (List Nat)) (re dry : Bool) (b : Bus) (k : Nat)
    (hwf : WF (view b)) (hnd : (avail.getD (List.range 64)).Nodup)
    (h64 : ∀ a ∈ avail.getD (List.range 64), a < 64) (hk : k < rounds)
    (hsep : ((b.filter (fun u => re || u.short.isNone)).map
      (fun u => randAfter (k + 1) u.random u.draws)).Nodup) :
    commCheck b avail re dry (runBus (commissioning rounds avail re dry) b).void = [] :=
  commissioning_spec_aux rounds avail re dry b hwf hnd h64
    (GearSeq.commissioning_terminates rounds avail re dry b k hwf hk (by rw [partRand_view]; exact hsep))

/-- **commissioning_others** — not re-addressing: the final bus is the initial bus, unit by unit, and every
unit that had a short address (a non-participant) still has it. -/
theorem commissioning_others (rounds : Nat) (avail : Option (List Nat)) (dry : Bool) (b : Bus) :
    ∃ g : Gear → Gear, (runBus (commissioning rounds avail false dry) b).st = b.map g ∧
      ∀ u, u.short ≠ none → (g u).short = u.short :=
  GearSeq.commissioning_others rounds avail dry b

/-- **commissioning_dry** — a dry run changes no unit's short address (and sends no PROGRAM SHORT ADDRESS:
`commissioning_addresses`). -/
theorem commissioning_dry (rounds : Nat) (avail : Option (List Nat)) (re : Bool) (b : Bus) :
    ∃ g : Gear → Gear, (runBus (commissioning rounds avail re true) b).st = b.map g ∧
      ∀ u, (g u).short = u.short :=
  GearSeq.commissioning_dry rounds avail re b

/-! ## Non-vacuity -/

example : FN.findNext [7, 3, 9] 25 0 0xffffff = .found 3 := by decide
example : FN.findNext [7, 3, 3] 25 0 0xffffff = .clash := by decide
example : FN.findNext [0, 0xffffff] 25 0 0xffffff = .found 0 := by decide
example : FN.findNext [0xffffff] 25 1 0xffffff = .found 0xffffff := by decide
example : FN.findNext [] 25 0 0xffffff = .none := by decide


/- `exBus` (Proofs/GearSeqC07k.lean): four units, one already addressed (0), two of the others clash on 1000
in the first round -/

example : WF (view exBus) := by
  intro v hv
  simp [exBus, view, Gear.v] at hv
  rcases hv with rfl | rfl | rfl | rfl <;> simp [WFv, HIGH]

set_option maxRecDepth 100000 in
example : (runBus (commissioning 3 none false false) exBus).res = .ret [(5, 1), (777, 2), (778, 3)] ∧
    progArgs (runBus (commissioning 3 none false false) exBus).trace = [1, 2, 3] ∧
    (runBus (commissioning 3 none false false) exBus).st.map (·.short) = [some 1, some 2, some 0, some 3] ∧
    countRandomise (runBus (commissioning 3 none false false) exBus).trace = 2 := by
  decide +kernel

/- the second draws of the three participants of `exBus` are pairwise distinct: `commissioning_terminates` applies with k = 1 -/
example : ((exBus.filter (fun u => false || u.short.isNone)).map
    (fun u => randAfter 2 u.random u.draws)).Nodup := by decide

set_option maxRecDepth 100000 in
example : commCheck exBus none false false (runBus (commissioning 3 none false false) exBus).void = [] := by
  decide +kernel

/- random addresses 0 and 0xFFFFFF; re-addressing with the permitted list [9, 4] -/
set_option maxRecDepth 100000 in
example : (runBus (commissioning 1 (some [9, 4]) true false)
      [{ short := some 3, draws := [0xffffff] }, { draws := [0] }, { short := some 3, draws := [70000] }]).st.map (·.short)
    = [none, some 9, some 4] := by
  decide +kernel

/- a dry run programs nothing; a unit that does not store its address raises ProgramShortAddressFailure -/
set_option maxRecDepth 100000 in
example : progArgs (runBus (commissioning 3 none false true) exBus).trace = [] ∧
    (runBus (commissioning 3 none false true) exBus).st.map (·.short) = exBus.map (·.short) ∧
    (runBus (commissioning 1 none false false) [{ draws := [5], noStore := true }]).res
      = .raised .ProgramShortAddressFailure := by
  decide +kernel

/- the re-draw hazard of DESIGN §6: the unit addressed in round 1 re-draws, in round 2, the random address
of a unit found later and is programmed again — the addresses handed out are distinct, two units share one -/
set_option maxRecDepth 100000 in
example : progArgs (runBus (commissioning 2 none false false)
      [{ draws := [5, 777] }, { draws := [1000, 776] }, { draws := [1000, 777] }]).trace = [0, 1, 2] ∧
    (runBus (commissioning 2 none false false)
      [{ draws := [5, 777] }, { draws := [1000, 776] }, { draws := [1000, 777] }]).st.map (·.short)
      = [some 2, some 1, some 2] := by
  decide +kernel

end DaliVerif.Props.C07
