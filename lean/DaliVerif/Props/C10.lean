import DaliVerif.Proofs.MemSeq
import DaliVerif.Proofs.MemSeqStall
import DaliVerif.Gen.MemSeqTables
/-!
# C10 — memory writes store exactly the data or fail loudly; never silently

`MemoryValue.write_raw` (model `writeRaw` in `Model/MemSeq.lean`) against the
specification memory unit (`Spec/MemUnit.lean`) and, for the fault clause,
against any responder.  Quantified over every location list, every byte
string, every image / lock byte / register content, gear and device; no bounds.
-/
namespace DaliVerif.Props.C10
open DaliVerif DaliVerif.DevMem DaliVerif.DevMem.Prog

/-- **Refused before anything is sent.**  A value with a location that is not of a
writable type (with a permitted length) gives `MemoryValueNotWriteable`, a wrong
length `ValueError`; in both cases against any responder the exchange is empty. -/
theorem write_refused_early (arg : AddrArg) (bank : Nat) (locs : List (Nat × MemType)) (raw : List Nat)
    (s f i : Bool) (dev : Bool) (a : Nat) (hres : resolveAddr arg = .ok (dev, a))
    (tr : List (Cmd × Resp)) (out : PyRes Unit) (h : Out (writeRaw arg bank locs raw s f i) tr out) :
    ((if s then raw.length > locs.length else raw.length ≠ locs.length) →
      tr = [] ∧ out = .error .ValueError) ∧
    ((if s then raw.length ≤ locs.length else raw.length = locs.length) →
      (∃ l ∈ locs, l.2.writeable = false) → tr = [] ∧ out = .error .MemoryValueNotWriteable) :=
  ⟨fun hlen => writeRaw_refused arg bank locs raw s f i _ dev a hres
      (writeChecks_length locs raw.length s f hlen) tr out h,
   fun hlen hro => writeRaw_refused arg bank locs raw s f i _ dev a hres
      (writeChecks_readonly locs raw.length s f hlen hro) tr out h⟩

/-- **The write loop** against a conforming write-enabled unit (key lemma, DTR0
tracking invariant as in C09): if every target cell can be written the loop
completes with the memory holding the bytes and DTR0 where the code tracks it;
otherwise `MemoryLocationNotWriteable`. -/
theorem writeLoop_spec (dev : Bool) (pairs : List (Nat × Nat)) (u : MemUnit) (d : Option Nat)
    (hdev : u.dev = dev) (hadv : u.advance = true) (hwe : u.we = true) (hb : u.dtr1 = u.bank.number)
    (hlocs : ∀ p ∈ pairs, p.1 ≤ 255) (hnl : ∀ p ∈ pairs, u.bank.isLockCell p.1 = false)
    (hd : ∀ x, d = some x → u.dtr0 = x) :
    ((∀ p ∈ pairs, u.bank.canWrite u.unlockValue p.1 = true) →
      ∃ c, (writeLoop dev false pairs d).run MemUnit.step u =
        (.ok (finalD pairs d),
          { u with clock := c, dtr0 := finalDtr0 pairs u.dtr0,
                   bank := { u.bank with rw := writeAll pairs u.bank.rw } })) ∧
    (¬ (∀ p ∈ pairs, u.bank.canWrite u.unlockValue p.1 = true) →
      ((writeLoop dev false pairs d).run MemUnit.step u).1 = .error .MemoryLocationNotWriteable) :=
  writeLoop_run dev pairs u d hdev hadv hwe hb hlocs hnl hd

/-- **A successful write stored exactly the data** (no unlocking needed): for a
conforming unit implementing the bank, any stale registers / write-enable
state, if every target cell can be written the run returns normally and
afterwards the writable memory is the old one overwritten with the bytes at
the locations (`writeAll`: nothing else changed), lock byte, latch and
environment untouched. -/
theorem write_ok_spec (u : MemUnit) (dev : Bool) (a bank : Nat) (locs : List (Nat × MemType)) (raw : List Nat)
    (allowShort : Bool) (hl : u.Listens dev a) (hadv : u.advance = true) (hb : u.bank.number = bank)
    (hchk : writeChecks locs raw.length allowShort false = .ok false)
    (hne : (locs.map (·.1)).zip raw ≠ [])
    (hlocs : ∀ p ∈ (locs.map (·.1)).zip raw, p.1 ≤ 255)
    (hnl : ∀ p ∈ (locs.map (·.1)).zip raw, u.bank.isLockCell p.1 = false)
    (hcw : ∀ p ∈ (locs.map (·.1)).zip raw, u.bank.canWrite u.unlockValue p.1 = true) :
    ∃ c, (writeRaw (if dev then .devShort a else .gearShort a) bank locs raw allowShort false false).run
        MemUnit.step u =
      (.ok (), { u with clock := c, dtr0 := finalDtr0 ((locs.map (·.1)).zip raw) u.dtr0, dtr1 := bank, we := true,
                        bank := { u.bank with rw := writeAll ((locs.map (·.1)).zip raw) u.bank.rw } }) :=
  writeRaw_ok u dev a bank locs raw allowShort hl hadv hb hchk hne hlocs hnl hcw

/-- **… and a lockable bank is locked again**: with unlocking (NVM-RW-L locations
or `force_unlock`) on a bank that has a lock byte: unlock (0x55), write,
verify DTR0, lock (0xFF).  Afterwards: exactly the data, lock byte 0xFF, not
latched, whatever the lock byte was before. -/
theorem write_ok_spec_unlock (u : MemUnit) (dev : Bool) (a bank : Nat) (locs : List (Nat × MemType))
    (raw : List Nat) (allowShort forceUnlock : Bool)
    (hl : u.Listens dev a) (hadv : u.advance = true) (hb : u.bank.number = bank)
    (hlock : u.bank.hasLock = true) (h2 : 2 ≤ u.bank.last)
    (hchk : writeChecks locs raw.length allowShort forceUnlock = .ok true)
    (hlocs : ∀ p ∈ (locs.map (·.1)).zip raw, p.1 ≤ 255)
    (hnl : ∀ p ∈ (locs.map (·.1)).zip raw, u.bank.isLockCell p.1 = false)
    (hcw : ∀ p ∈ (locs.map (·.1)).zip raw, u.bank.unlocked.canWrite u.unlockValue p.1 = true) :
    ∃ c, (writeRaw (if dev then .devShort a else .gearShort a) bank locs raw allowShort forceUnlock false).run
        MemUnit.step u =
      (.ok (), { u with clock := c, dtr0 := 3, dtr1 := bank, we := true,
                        bank := { u.bank with rw := writeAll ((locs.map (·.1)).zip raw) u.bank.rw,
                                              lockByte := 0xFF, snap := none } }) :=
  writeRaw_ok_unlock u dev a bank locs raw allowShort forceUnlock hl hadv hb hlock h2 hchk hlocs hnl hcw

/-- what `writeAll` means: with distinct locations, each location holds its byte
and every other cell is unchanged -/
theorem writeAll_spec (pairs : List (Nat × Nat)) (m : Nat → Nat) :
    (∀ x, (∀ p ∈ pairs, p.1 ≠ x) → writeAll pairs m x = m x) ∧
    ((pairs.map (·.1)).Nodup → ∀ p ∈ pairs, writeAll pairs m p.1 = p.2) := by
  induction pairs generalizing m with
  | nil => exact ⟨fun _ _ => rfl, fun _ p hp => by cases hp⟩
  | cons q qs ih =>
    constructor
    · intro x hx
      rw [writeAll, (ih _).1 x (fun p hp => hx p (by simp [hp]))]
      have := hx q (by simp)
      simp [Ne.symm this]
    · intro hnd p hp
      simp only [List.map_cons, List.nodup_cons] at hnd
      simp only [List.mem_cons] at hp
      rcases hp with rfl | hp
      · rw [writeAll, (ih _).1 p.1 (fun r hr heq => hnd.1 (by
          simp only [List.mem_map]; exact ⟨r, hr, heq⟩))]
        simp
      · rw [writeAll]; exact (ih _).2 hnd.2 p hp

/-- **A cell that cannot be written makes the write fail loudly** (shorter bank,
unimplemented cell, cell read-only in the unit, bank still locked / unit that
unlocks with another value): `MemoryLocationNotWriteable`, never success. -/
theorem write_not_writable (u : MemUnit) (dev : Bool) (a bank : Nat) (locs : List (Nat × MemType))
    (raw : List Nat) (allowShort : Bool)
    (hl : u.Listens dev a) (hadv : u.advance = true) (hb : u.bank.number = bank)
    (hchk : writeChecks locs raw.length allowShort false = .ok false)
    (hlocs : ∀ p ∈ (locs.map (·.1)).zip raw, p.1 ≤ 255)
    (hnl : ∀ p ∈ (locs.map (·.1)).zip raw, u.bank.isLockCell p.1 = false)
    (hcw : ¬ ∀ p ∈ (locs.map (·.1)).zip raw, u.bank.canWrite u.unlockValue p.1 = true) :
    ((writeRaw (if dev then .devShort a else .gearShort a) bank locs raw allowShort false false).run
        MemUnit.step u).1 = .error .MemoryLocationNotWriteable :=
  writeRaw_not_writable u dev a bank locs raw allowShort hl hadv hb hchk hlocs hnl hcw

/-- **Faults are loud** — against *any* responder (NO, another byte echoed, framing
error, wrong DTR0 read-back, at any step), feedback not ignored: a normal return
implies that every WRITE MEMORY LOCATION was echoed with exactly its own value
and that DTR0 was read back cleanly; every other outcome is one of the
documented exceptions.  A failed write is never reported as success. -/
theorem write_fault_loud (arg : AddrArg) (bank : Nat) (locs : List (Nat × MemType)) (raw : List Nat)
    (s f : Bool) (tr : List (Cmd × Resp)) (out : PyRes Unit)
    (h : Out (writeRaw arg bank locs raw s f false) tr out) :
    (out = .ok () ∧ (∀ cr ∈ tr, ∀ d v, cr.1 = Cmd.writeMemoryLocation d v → cr.2 = Resp.byte v) ∧
      ∃ dev a b, (Cmd.queryContentDTR0 dev a, Resp.byte b) ∈ tr) ∨
    (∃ e, out = .error e ∧ (e = .TypeError ∨ e = .ValueError ∨ e = .MemoryValueNotWriteable ∨
      e = .MemoryLocationNotWriteable ∨ e = .ResponseError ∨ e = .MemoryWriteFailure)) :=
  writeRaw_faults arg bank locs raw s f tr out h

/-- **A unit that does not advance its DTR0** — on ONE write only (any one), on
every data write but not on the lock-byte writes, on every frame (the unit that
never advances): `MemUnit.stepSched sched` is the specification unit that on the
frames selected by `sched` does everything as usual except advancing DTR0.  For
ANY schedule, any unit (lock byte, unlock value, bank number, cells, stale
registers arbitrary) and any value with consecutive locations that is not the
lock byte itself, feedback checked: if `write_raw` returns normally, the unit's
memory afterwards is the old one overwritten with exactly the bytes at exactly
the locations.  So a write that went wrong because DTR0 stalled (bytes landing
one location low) is never reported as success.  (`hlock`: when the bank is
unlocked / re-locked, location 2 is its lock byte.) -/
theorem write_stall_loud (sched : Nat → Bool) (i0 : Nat) (u : MemUnit) (dev : Bool) (a bank l : Nat)
    (locs : List (Nat × MemType)) (raw : List Nat) (allowShort forceUnlock unlock : Bool)
    (hdev : u.dev = dev)
    (hchk : writeChecks locs raw.length allowShort forceUnlock = .ok unlock)
    (hlock : unlock = true → u.bank.isLockCell 2 = true)
    (hcont : locs.map (·.1) = List.range' l locs.length) (h255 : l + locs.length ≤ 255)
    (hnl : ∀ x ∈ locs, u.bank.isLockCell x.1 = false)
    (h : ((writeRaw (if dev then .devShort a else .gearShort a) bank locs raw allowShort forceUnlock false).run
        (MemUnit.stepSched sched) (u, i0)).1 = .ok ()) :
    ((writeRaw (if dev then .devShort a else .gearShort a) bank locs raw allowShort forceUnlock false).run
        (MemUnit.stepSched sched) (u, i0)).2.1.bank.rw = writeAll ((locs.map (·.1)).zip raw) u.bank.rw :=
  writeRaw_stall sched i0 u dev a bank l locs raw allowShort forceUnlock unlock hdev hchk hlock hcont h255 hnl h

/-- every declared value has consecutive locations ending at or below 254, which is
what `write_stall_loud` asks for -/
theorem tables_consecutive :
    DaliVerif.Gen.MemSeqTables.values.all (fun v =>
      v.addrs == List.range' (v.addrs.headD 0) v.addrs.length &&
      decide (v.addrs.headD 0 + v.addrs.length ≤ 255)) = true := by decide +kernel

/-! non-vacuity of `write_stall_loud`: a lockable bank-1 style unit; without a stall the
write succeeds, with DTR0 stalled on the first data write (frame 4) the second byte
lands on location 3 and the write raises `MemoryWriteFailure` -/
private def exUnit : MemUnit :=
  { dev := false, addr := 5, clock := 0, dtr0 := 9, dtr1 := 7, dtr2 := 0, we := false,
    bank := { number := 1, last := 20, impl := fun _ => true, access := fun _ => .rwLock,
              live := fun _ _ => 0, rw := fun a => 100 + a, hasLock := true, hasLatch := false,
              lockByte := 0xFF, snap := none },
    advance := true, unlockValue := 0x55 }

private def exLocs : List (Nat × MemType) := [(3, .NVM_RW_L), (4, .NVM_RW_L), (5, .NVM_RW_L)]

example : ((writeRaw (.gearShort 5) 1 exLocs [11, 22, 33] false false false).run
    (MemUnit.stepSched fun _ => false) (exUnit, 0)).1 = .ok () := by decide

example : ((writeRaw (.gearShort 5) 1 exLocs [11, 22, 33] false false false).run
    (MemUnit.stepSched fun k => k == 4) (exUnit, 0)).1 = .error .MemoryWriteFailure := by decide

example : ((writeRaw (.gearShort 5) 1 exLocs [11, 22, 33] false false false).run
    (MemUnit.stepSched fun k => k == 4) (exUnit, 0)).2.1.bank.rw 3 = 22 := by decide

/-- the regenerated tables satisfy what the theorems ask of a value: locations
fit a byte and are pairwise distinct; 27 values are writable -/
theorem tables_ok :
    DaliVerif.Gen.MemSeqTables.values.all (fun v =>
      v.locs.all (fun l => decide (l.1 ≤ 254)) && decide (v.addrs.Nodup)) = true ∧
    (DaliVerif.Gen.MemSeqTables.values.filter (fun v => v.locs.all (·.2.writeable))).length = 27 := by
  decide +kernel

end DaliVerif.Props.C10
