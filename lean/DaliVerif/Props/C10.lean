import DaliVerif.Proofs.MemSeq
import DaliVerif.Gen.MemSeqTables
namespace DaliVerif.Props.C10
theorem tables_ok : DaliVerif.Gen.MemSeqTables.banks.length = 9 := by decide
end DaliVerif.Props.C10
