import DaliVerif.Proofs.AsyncProg
import DaliVerif.Proofs.ConnLangAsync
/-!
# C15 — async drivers keep transactions atomic and device-type prefixes adjacent

All theorems are about the interleaving model `Model/Async.lean` running the
caller programs of `Model/CallerProgram.lean`: *any* number of callers spawned
at *any* point, *every* schedule of their actions, exceptions, cancellations,
gateway reports and connection events (`run? s0 ls = some s`).  The only
hypothesis on a schedule is that the spawned callers run well-formed programs
(`Label.ok`); `caller_programs_wf` discharges it for `send` / `run_sequence`
of all four drivers.
-/
namespace DaliVerif.Props.C15
open DaliVerif.Async

/-- a schedule whose callers are calls of `send` / `run_sequence` on driver `d` -/
def DriverSchedule (d : Driver) (ls : List Label) : Prop :=
  ∀ l ∈ ls, match l with
    | .spawn tk => ∃ c, tk = mkTask d c
    | _ => True

/-- `caller_programs_wf`: for every driver, every command (any frame, device type, send-twice,
query, exceptions on/off) and every sequence (any list of commands, sleeps, progress items) the
program of `send` / `run_sequence` is statically well bracketed: every normal, exceptional and
cancellation exit releases exactly what is held, frames are written only under the transaction
lock and the inner serialiser, and every device-type frame follows its EnableDeviceType inside
the same locked region. -/
theorem caller_programs_wf (d : Driver) (c : Call) : (mkTask d c).ok = true := mkTask_ok d c

theorem driverSchedule_ok {d : Driver} {ls : List Label} (h : DriverSchedule d ls) : ∀ l ∈ ls, l.ok := by
  intro l hl
  have := h l hl
  cases l with
  | spawn tk => obtain ⟨c, rfl⟩ := this; exact mkTask_ok d c
  | _ => trivial

/-- `mutex_inv`: in every reachable state the lock/wire log is a legal history of a one-holder
lock ending with the current holder (so every acquisition found the lock free and every release
was by the holder), and a task that is not the holder is outside its critical region: its next
action is neither a write nor a release. -/
theorem mutex_inv {s0 s : St} {ls : List Label} (h0 : s0.initial) (hl : ∀ l ∈ ls, l.ok)
    (h : run? s0 ls = some s) :
    holderR s.log = some s.lock ∧
    ∀ t tk st rest, s.tasks[t]? = some tk → tk.prog = st :: rest → s.lock ≠ some t →
      st.act ≠ .rel ∧ ∀ f, st.act ≠ .write f := by
  have hI := reachable_inv h0 hl h
  refine ⟨hI.log, ?_⟩
  intro t tk st rest ht hp hne
  have hw := (hI.tasks t tk ht).wf
  rw [hp] at hw
  obtain ⟨_, r', heff, _⟩ := wf_cons hw
  have hlk : (res s t).lock = false := by
    cases hh : (res s t).lock with
    | false => rfl
    | true => exact absurd (res_lock.mp hh) hne
  refine ⟨?_, ?_⟩
  · intro ha; rw [ha] at heff
    have := (eff_rel heff).1; rw [hlk] at this; cases this
  · intro f ha; rw [ha] at heff
    have := (eff_write heff).1; rw [hlk] at this; cases this

/-- `writes_by_holder`: whenever a task puts a frame on the wire it holds the transaction lock
(and the driver's inner serialiser). -/
theorem writes_by_holder {s0 s s' : St} {ls : List Label} (h0 : s0.initial) (hl : ∀ l ∈ ls, l.ok)
    (h : run? s0 ls = some s) {t : Tid} {tk : Task} {st : Step} {rest : List Step} {f : WFrame}
    (ht : s.tasks[t]? = some tk) (hp : tk.prog = st :: rest) (ha : st.act = .write f)
    (_hstep : step? s (.act t) = some s') : s.lock = some t ∧ t ∈ s.inner := by
  have hI := reachable_inv h0 hl h
  have hw := (hI.tasks t tk ht).wf
  rw [hp] at hw
  obtain ⟨_, r', heff, _⟩ := wf_cons hw
  rw [ha] at heff
  have hlk := (eff_write heff).1
  refine ⟨res_lock.mp hlk, ?_⟩
  have hin : (res s t).inner = true := by
    cases hh : (res s t).inner with
    | true => rfl
    | false =>
      simp only [Act.eff, hlk, hh] at heff
      simp at heff
  exact res_inner.mp hin

/-- `wire_well_bracketed`: the lock/wire events, oldest first, are a word of the regular language
`(acq_t · write_t* · rel_t)*` (followed by at most one open unit of the current holder): the
frames of one `send` or of one whole sequence are contiguous, nothing of another caller in
between. -/
theorem wire_well_bracketed {s0 s : St} {ls : List Label} (h0 : s0.initial) (hl : ∀ l ∈ ls, l.ok)
    (h : run? s0 ls = some s) : Bracketed none s.log.reverse s.lock :=
  bracketed_of_holderR (reachable_inv h0 hl h).log

/-- `edt_adjacent`: on the wire (oldest first) every frame whose command needs a device type is
immediately preceded by EnableDeviceType of that type written by the same caller. -/
theorem edt_adjacent {s0 s : St} {ls : List Label} (h0 : s0.initial) (hl : ∀ l ∈ ls, l.ok)
    (h : run? s0 ls = some s) : EdtAdjacent s.wire :=
  edtAdjacent_of_wireEdtR (reachable_inv h0 hl h).wire

/-- `edt_adjacent` for the four drivers, with no side condition left: every schedule of `send` /
`run_sequence` callers. -/
theorem edt_adjacent_drivers (d : Driver) {s0 s : St} {ls : List Label} (h0 : s0.initial)
    (hd : DriverSchedule d ls) (h : run? s0 ls = some s) : EdtAdjacent s.wire :=
  edt_adjacent h0 (driverSchedule_ok hd) h

/-- `lock_free_at_end`: when every caller has finished — normally, by an exception or by
cancellation — the transaction lock is free (and so are the inner serialiser and the table of
outstanding commands). -/
theorem lock_free_at_end {s0 s : St} {ls : List Label} (h0 : s0.initial) (hl : ∀ l ∈ ls, l.ok)
    (h : run? s0 ls = some s) (hfin : ∀ (t : Tid) (tk : Async.Task), s.tasks[t]? = some tk → tk.prog = []) :
    s.lock = none ∧ s.inner = [] ∧ s.slots = [] := by
  have hI := reachable_inv h0 hl h
  have key : ∀ t, t < s.tasks.length → (res s t).free = true := by
    intro t ht
    have hget : s.tasks[t]? = some s.tasks[t] := List.getElem?_eq_getElem ht
    have hw := (hI.tasks t _ hget).wf
    rw [hfin t _ hget] at hw
    simpa [wf, wfSeg] using hw
  refine ⟨?_, ?_, ?_⟩
  · cases hlk : s.lock with
    | none => rfl
    | some t =>
      have := key t (hI.lockB t hlk)
      have h2 : (res s t).lock = true := res_lock.mpr hlk
      simp [Res.free, h2] at this
  · cases hin : s.inner with
    | nil => rfl
    | cons t l =>
      have hm : t ∈ s.inner := by rw [hin]; exact List.mem_cons_self
      have := key t (hI.innerB t hm)
      have h2 : (res s t).inner = true := res_inner.mpr hm
      simp [Res.free, h2] at this
  · cases hsl : s.slots with
    | nil => rfl
    | cons x l =>
      have hm : x.2 ∈ s.owners := by simp [St.owners, hsl]
      have := key x.2 (hI.slotB _ hm)
      have h2 : (res s x.2).slot = true := res_slot.mpr hm
      simp [Res.free, h2] at this

/-- `release_on_raise_or_cancel` (and `sequence_closed`): when an action of a task raises out of
the call or the task is cancelled while blocked in it, what remains of the task's program is
exactly the clean-up of its `finally` / `async with` blocks: synchronous actions only, which
release everything the task holds (for a sequence they include `close`: `caller_programs_wf` checks every handler of `seqBody`). -/
theorem release_on_raise_or_cancel {s0 s s' : St} {ls : List Label} (h0 : s0.initial) (hl : ∀ l ∈ ls, l.ok)
    (h : run? s0 ls = some s) {t : Tid} {e : Err} {tk : Task} (ht : s.tasks[t]? = some tk)
    (hnoretry : tk.retry = none) (hstep : step? s (.raise t e) = some s') :
    ∃ tk', s'.tasks[t]? = some tk' ∧ tk'.exc = some e ∧
      cleanupOK (res s' t) (tk'.prog.map (·.act)) = true := by
  have hI := reachable_inv h0 hl h
  simp only [step?, raiseStep, ht] at hstep
  cases hp : tk.prog with
  | nil => simp [hp] at hstep
  | cons st rest =>
    simp only [hp] at hstep
    by_cases hcr : st.act.canRaise = true
    · simp only [hcr, Bool.not_true, Bool.false_eq_true, if_false, hnoretry] at hstep
      have hw := (hI.tasks t tk ht).wf
      rw [hp] at hw
      obtain ⟨hsok, _⟩ := wf_cons hw
      simp only [stepOK, hcr, Bool.not_true, Bool.false_or, Bool.and_eq_true] at hsok
      have hlt := getElem?_lt ht
      have hs' : s' = setTask s t { tk with prog := plain st.h, exc := some e } := by
        cases e <;> simp_all
      subst hs'
      refine ⟨{ tk with prog := plain st.h, exc := some e }, ?_, rfl, ?_⟩
      · simp [setTask, List.getElem?_set, hlt]
      · have hr : res (setTask s t { tk with prog := plain st.h, exc := some e }) t = res s t :=
          res_eq_of Iff.rfl Iff.rfl Iff.rfl
        rw [hr]
        have : (plain st.h).map (·.act) = st.h := by simp [plain, List.map_map, Function.comp_def]
        simp only [this]
        exact hsok.1
    · simp [hcr] at hstep

theorem eff_iacq_pre {r r' : Res} (h : Act.iacq.eff r = some r') : r.lock = true ∧ r.inner = false := by
  obtain ⟨l, i, o⟩ := r
  cases l <;> cases i <;> simp_all [Act.eff]

theorem eff_slot_pre {r r' : Res} (h : Act.slot.eff r = some r') : r.inner = true ∧ r.slot = false := by
  obtain ⟨l, i, o⟩ := r
  cases i <;> cases o <;> simp_all [Act.eff]

/-- `progress_partial` (the lock part of `progress`): in a reachable state with unfinished callers
there is always a task that can take a step or that waits for the environment only (a gateway
report, the connection, a timer) — never a cycle of tasks blocked on the transaction lock or the
inner serialiser.  Every action consumes one step of a finite program, so every caller
completes provided the gateway confirms/answers every write; that liveness of the gateway is an
assumption, it is not modelled. -/
theorem progress_partial {s0 s : St} {ls : List Label} (h0 : s0.initial) (hl : ∀ l ∈ ls, l.ok)
    (h : run? s0 ls = some s) (hcap : 1 ≤ s.cap) {u : Tid} {tku : Task} (hu : s.tasks[u]? = some tku)
    (hunf : tku.prog ≠ []) :
    ∃ t tk st rest, s.tasks[t]? = some tk ∧ tk.prog = st :: rest ∧
      ((step? s (.act t)).isSome = true ∨ st.act.pure = true ∨ (∃ f, st.act = .write f)) := by
  have hI := reachable_inv h0 hl h
  -- the interesting task: the lock holder if there is one, else `u`
  have main : ∀ t tk, s.tasks[t]? = some tk → tk.prog ≠ [] → (s.lock = none ∨ s.lock = some t) →
      ∃ st rest, tk.prog = st :: rest ∧
        ((step? s (.act t)).isSome = true ∨ st.act.pure = true ∨ (∃ f, st.act = .write f)) := by
    intro t tk ht hne hlk
    cases hp : tk.prog with
    | nil => exact absurd hp hne
    | cons st rest =>
      refine ⟨st, rest, rfl, ?_⟩
      have hT := hI.tasks t tk ht
      have hw := hT.wf
      rw [hp] at hw
      obtain ⟨_, r', heff, _⟩ := wf_cons hw
      cases hact : st.act with
      | acq =>
        left
        rw [hact] at heff
        have hl0 := (eff_acq heff).1
        have : s.lock = none := by
          rcases hlk with h1 | h1
          · exact h1
          · rw [res_lock.mpr h1] at hl0; cases hl0
        simp [step?, actStep, ht, hp, hact, this]
      | iacq =>
        left
        rw [hact] at heff
        -- nobody but the lock holder can hold the inner serialiser, and `t` does not hold it
        obtain ⟨hlt, hnin⟩ := eff_iacq_pre heff
        have hlock := res_lock.mp hlt
        have hempty : s.inner = [] := by
          cases hin : s.inner with
          | nil => rfl
          | cons x l =>
            have hm : x ∈ s.inner := by rw [hin]; exact List.mem_cons_self
            have hx := hI.innerB x hm
            have hgx : s.tasks[x]? = some s.tasks[x] := List.getElem?_eq_getElem hx
            have hok := (hI.tasks x _ hgx).ok
            have hxi : (res s x).inner = true := res_inner.mpr hm
            have hxl : (res s x).lock = true := by
              simp only [Res.ok, hxi, Bool.not_true, Bool.false_or, Bool.and_eq_true] at hok
              exact hok.2
            have : x = t := by
              have := res_lock.mp hxl
              rw [hlock] at this; cases this; rfl
            subst this
            rw [hxi] at hnin; cases hnin
        simp only [step?, actStep, ht, hp, hact, hempty, List.length_nil]
        have : 0 < s.cap := hcap
        simp [this]
      | rel => left; simp [step?, actStep, ht, hp, hact]
      | irel => left; simp [step?, actStep, ht, hp, hact]
      | unslot => left; simp [step?, actStep, ht, hp, hact]
      | slot =>
        left
        rw [hact] at heff
        -- no slot is occupied: an owner would hold the lock, so be `t`, who has none
        obtain ⟨hit, hns⟩ := eff_slot_pre heff
        have hlt : (res s t).lock = true := by
          have hok := hT.ok
          simp only [Res.ok, hit, Bool.not_true, Bool.false_or, Bool.and_eq_true] at hok
          exact hok.2
        have hlock := res_lock.mp hlt
        have hempty : s.slots = [] := by
          cases hsl : s.slots with
          | nil => rfl
          | cons x l =>
            have hm : x.2 ∈ s.owners := by simp [St.owners, hsl]
            have hx := hI.slotB _ hm
            have hgx : s.tasks[x.2]? = some s.tasks[x.2] := List.getElem?_eq_getElem hx
            have hok := (hI.tasks x.2 _ hgx).ok
            have hxs : (res s x.2).slot = true := res_slot.mpr hm
            have hxl : (res s x.2).lock = true := by
              cases hi : (res s x.2).inner <;> cases hlk2 : (res s x.2).lock <;>
                simp_all [Res.ok]
            have : x.2 = t := by
              have := res_lock.mp hxl
              rw [hlock] at this; cases this; rfl
            rw [this] at hxs
            rw [hxs] at hns; cases hns
        simp [step?, actStep, ht, hp, hact, hempty]
      | write f => right; right; exact ⟨f, rfl⟩
      | connWait => right; left; simp [Act.pure]
      | connCheck => right; left; simp [Act.pure]
      | await m timed => right; left; simp [Act.pure]
      | flush => right; left; simp [Act.pure]
      | flush1 => right; left; simp [Act.pure]
      | poll => right; left; simp [Act.pure]
      | sleep => right; left; simp [Act.pure]
      | resume => right; left; simp [Act.pure]
      | close => right; left; simp [Act.pure]
  cases hlk : s.lock with
  | none =>
    obtain ⟨st, rest, hp, hx⟩ := main u tku hu hunf (Or.inl hlk)
    exact ⟨u, tku, st, rest, hu, hp, hx⟩
  | some t =>
    have hlt := hI.lockB t hlk
    have hgt : s.tasks[t]? = some s.tasks[t] := List.getElem?_eq_getElem hlt
    have hne : (s.tasks[t]).prog ≠ [] := by
      intro hnil
      have hw := (hI.tasks t _ hgt).wf
      rw [hnil] at hw
      have h2 : (res s t).lock = true := res_lock.mpr hlk
      simp [wf, wfSeg, Res.free, h2] at hw
    obtain ⟨st, rest, hp, hx⟩ := main t _ hgt hne (Or.inr hlk)
    exact ⟨t, _, st, rest, hgt, hp, hx⟩


/-- `progress` (1), connection up: in a reachable state with unfinished callers and `connected` set,
some caller can take a step, or the caller whose turn it is (the lock holder, or any caller if the
lock is free) is blocked in a wait for a gateway report — nothing else can block: not the
transaction lock, not the inner serialiser, not the table of sequence numbers, not the
connection. -/
theorem progress_up {s0 s : St} {ls : List Label} (h0 : s0.initial) (hl : ∀ l ∈ ls, l.ok)
    (h : run? s0 ls = some s) (hcap : 1 ≤ s.cap) (hup : s.conn.up = true) {u : Tid} {tku : Task}
    (hu : s.tasks[u]? = some tku) (hunf : tku.prog ≠ []) :
    ∃ t tk st rest, s.tasks[t]? = some tk ∧ tk.prog = st :: rest ∧
      ((step? s (.act t)).isSome = true ∨ ∃ m timed, st.act = .await m timed) := by
  obtain ⟨t, tk, st, rest, ht, hp, hx⟩ := progress_partial h0 hl h hcap hu hunf
  refine ⟨t, tk, st, rest, ht, hp, ?_⟩
  have hfd : s.conn.fd = true := by
    simp only [Conn.Conn.up, Bool.and_eq_true] at hup; exact hup.1
  rcases hx with hx | hx | ⟨f, hf⟩
  · exact Or.inl hx
  · cases hact : st.act with
    | await m timed => exact Or.inr ⟨m, timed, rfl⟩
    | connWait => left; simp [step?, actStep, ht, hp, hact, hup]
    | connCheck => left; simp [step?, actStep, ht, hp, hact, hup]
    | flush => left; simp [step?, actStep, ht, hp, hact]
    | flush1 => left; simp only [step?, actStep, ht, hp, hact]; split <;> rfl
    | poll => left; simp only [step?, actStep, ht, hp, hact]; split <;> rfl
    | sleep => left; simp [step?, actStep, ht, hp, hact]
    | resume => left; simp [step?, actStep, ht, hp, hact]
    | close => left; simp [step?, actStep, ht, hp, hact]
    | acq => rw [hact] at hx; simp [Act.pure] at hx
    | rel => rw [hact] at hx; simp [Act.pure] at hx
    | iacq => rw [hact] at hx; simp [Act.pure] at hx
    | irel => rw [hact] at hx; simp [Act.pure] at hx
    | slot => rw [hact] at hx; simp [Act.pure] at hx
    | unslot => rw [hact] at hx; simp [Act.pure] at hx
    | write f => rw [hact] at hx; simp [Act.pure] at hx
  · left; simp [step?, actStep, ht, hp, hf, hfd]

/-- `progress` (2): with `connected` set and a gateway that answers every write
(`GatewayAnswers`: the report each waiting caller waits for is there — the environment-liveness
assumption, stated as a hypothesis), a reachable state with an unfinished caller always has an
enabled caller step, and that step strictly decreases the number of caller steps still to run. -/
theorem progress {s0 s : St} {ls : List Label} (h0 : s0.initial) (hl : ∀ l ∈ ls, l.ok)
    (h : run? s0 ls = some s) (hcap : 1 ≤ s.cap) (hup : s.conn.up = true) (hgw : GatewayAnswers s)
    {u : Tid} {tku : Task} (hu : s.tasks[u]? = some tku) (hunf : tku.prog ≠ []) :
    ∃ t s', step? s (.act t) = some s' ∧ measure s' + 1 = measure s := by
  obtain ⟨t, tk, st, rest, ht, hp, hx⟩ := progress_up h0 hl h hcap hup hu hunf
  have hen : (step? s (.act t)).isSome = true := by
    rcases hx with hx | ⟨m, timed, ha⟩
    · exact hx
    · obtain ⟨mail', hm⟩ := hgw t tk st rest m timed ht hp ha
      simp [step?, actStep, ht, hp, ha, hm]
  cases hs : step? s (.act t) with
  | none => rw [hs] at hen; cases hen
  | some s' => exact ⟨t, s', hs, act_measure hs⟩

/-- `progress` (3), termination bound: in a schedule without exceptions, cancellations and new
callers, the caller steps taken are exactly the decrease of the measure — no schedule keeps the
callers busy for more than `measure s` steps, and when that many have been taken every caller has
finished.  With (2): under a fair scheduler, a connected driver and an answering gateway, every
caller completes. -/
theorem caller_steps_bounded {s s' : St} {ls : List Label} (hf : ∀ l ∈ ls, l.faultFree = true)
    (h : run? s ls = some s') :
    nActs ls + measure s' = measure s ∧
    (nActs ls = measure s → ∀ (t : Tid) (tk : Task), s'.tasks[t]? = some tk → tk.prog = []) := by
  have hm := run_measure hf h
  refine ⟨hm, fun he => measure_zero_iff.mp (by omega)⟩

/-- `progress` (4), nobody hangs: a reachable state in which no caller can move, with `connected`
set and the gateway having answered, has no unfinished caller. -/
theorem nobody_hangs {s0 s : St} {ls : List Label} (h0 : s0.initial) (hl : ∀ l ∈ ls, l.ok)
    (h : run? s0 ls = some s) (hcap : 1 ≤ s.cap) (hup : s.conn.up = true) (hgw : GatewayAnswers s)
    (hq : Quiescent s) : ∀ (t : Tid) (tk : Task), s.tasks[t]? = some tk → tk.prog = [] := by
  intro u tku hu
  cases hp : tku.prog with
  | nil => rfl
  | cons st rest =>
    obtain ⟨t, s', hs, _⟩ := progress h0 hl h hcap hup hgw hu (by rw [hp]; simp)
    rw [hq t] at hs; cases hs

/-! ## non-vacuity -/

/-- a two-caller run on the Tridonic model that ends with both callers done and the expected wire -/
example :
    let c6 : Cmd := ⟨⟨16, 0x03ED, false, 6⟩, true⟩
    (mkTask .tridonic (.send c6 true)).ok = true ∧ (mkTask .luba (.seq [.cmd c6, .sleep])).ok = true := by
  exact ⟨mkTask_ok _ _, mkTask_ok _ _⟩

/-- K1 on the unchanged tree: the serial `send` without EnableDeviceType is NOT well formed -/
theorem k1_witness_old_serial_send :
    (mkTaskOldSerialSend .luba ⟨⟨16, 0x03ED, false, 6⟩, true⟩).ok = false := by decide

end DaliVerif.Props.C15
