import DaliVerif.Proofs.AsyncProg
import DaliVerif.Proofs.ConnLangAsync
/-!
# C15 — async drivers keep transactions atomic and device-type prefixes adjacent

All theorems are about the interleaving model `Model/Async.lean` running the
caller programs of `Model/CallerProgram.lean`: *any* number of callers spawned
at *any* point, *every* schedule of their actions, exceptions, cancellations,
gateway reports and connection events (`run? s0 ls = some s`).  The only
hypothesis on a schedule is that the spawned callers run well-formed programs
(`Label.ok`); `caller_programs_wf` discharges it for `send` / `run_sequence`
of all four drivers.
-/
namespace DaliVerif.Props.C15
open DaliVerif.Async

/-- a schedule whose callers are calls of `send` / `run_sequence` on driver `d` -/
def DriverSchedule (d : Driver) (ls : List Label) : Prop :=
  ∀ l ∈ ls, match l with
    | .spawn tk => ∃ c, tk = mkTask d c
    | _ => True

/-- `caller_programs_wf`: for every driver, every command (any frame, device type, send-twice,
query, exceptions on/off) and every sequence (any list of commands, sleeps, progress items) the
program of `send` / `run_sequence` is statically well bracketed: every normal, exceptional and
cancellation exit releases exactly what is held, frames are written only under the transaction
lock and the inner serialiser, and every device-type frame follows its EnableDeviceType inside
the same locked region. -/
theorem caller_programs_wf (d : Driver) (c : Call) : (mkTask d c).ok = true := mkTask_ok d c

theorem driverSchedule_ok {d : Driver} {ls : List Label} (h : DriverSchedule d ls) : ∀ l ∈ ls, l.ok := by
  intro l hl
  have := h l hl
  cases l with
  | spawn tk => obtain ⟨c, rfl⟩ := this; exact mkTask_ok d c
  | _ => trivial

/-- `mutex_inv`: in every reachable state the lock/wire log is a legal history of a one-holder
lock ending with the current holder (so every acquisition found the lock free and every release
was by the holder), and a task that is not the holder is outside its critical region: its next
action is neither a write nor a release. -/
theorem mutex_inv {s0 s : St} {ls : List Label} (h0 : s0.initial) (hl : ∀ l ∈ ls, l.ok)
    (h : run? s0 ls = some s) :
    holderR s.log = some s.lock ∧
    ∀ t tk st rest, s.tasks[t]? = some tk → tk.prog = st :: rest → s.lock ≠ some t →
      st.act ≠ .rel ∧ ∀ f, st.act ≠ .write f := by
  have hI := reachable_inv h0 hl h
  refine ⟨hI.log, ?_⟩
  intro t tk st rest ht hp hne
  have hw := (hI.tasks t tk ht).wf
  rw [hp] at hw
  obtain ⟨_, r', heff, _⟩ := wf_cons hw
  have hlk : (res s t).lock = false := by
    cases hh : (res s t).lock with
    | false => rfl
    | true => exact absurd (res_lock.mp hh) hne
  refine ⟨?_, ?_⟩
  · intro ha; rw [ha] at heff
    have := (eff_rel heff).1; rw [hlk] at this; cases this
  · intro f ha; rw [ha] at heff
    have := (eff_write heff).1; rw [hlk] at this; cases this

/-- `writes_by_holder`: whenever a task puts a frame on the wire it holds the transaction lock
(and the driver's inner serialiser). -/
theorem writes_by_holder {s0 s s' : St} {ls : List Label} (h0 : s0.initial) (hl : ∀ l ∈ ls, l.ok)
    (h : run? s0 ls = some s) {t : Tid} {tk : Task} {st : Step} {rest : List Step} {f : WFrame}
    (ht : s.tasks[t]? = some tk) (hp : tk.prog = st :: rest) (ha : st.act = .write f)
    (_hstep : step? s (.act t) = some s') : s.lock = some t ∧ t ∈ s.inner := by
  have hI := reachable_inv h0 hl h
  have hw := (hI.tasks t tk ht).wf
  rw [hp] at hw
  obtain ⟨_, r', heff, _⟩ := wf_cons hw
  rw [ha] at heff
  have hlk := (eff_write heff).1
  refine ⟨res_lock.mp hlk, ?_⟩
  have hin : (res s t).inner = true := by
    cases hh : (res s t).inner with
    | true => rfl
    | false =>
      simp only [Act.eff, hlk, hh] at heff
      simp at heff
  exact res_inner.mp hin

/-- `wire_well_bracketed`: the lock/wire events, oldest first, are a word of the regular language
`(acq_t · write_t* · rel_t)*` (followed by at most one open unit of the current holder): the
frames of one `send` or of one whole sequence are contiguous, nothing of another caller in
between. -/
theorem wire_well_bracketed {s0 s : St} {ls : List Label} (h0 : s0.initial) (hl : ∀ l ∈ ls, l.ok)
    (h : run? s0 ls = some s) : Bracketed none s.log.reverse s.lock :=
  bracketed_of_holderR (reachable_inv h0 hl h).log

/-- `edt_adjacent`: on the wire (oldest first) every frame whose command needs a device type is
immediately preceded by EnableDeviceType of that type written by the same caller. -/
theorem edt_adjacent {s0 s : St} {ls : List Label} (h0 : s0.initial) (hl : ∀ l ∈ ls, l.ok)
    (h : run? s0 ls = some s) : EdtAdjacent s.wire :=
  edtAdjacent_of_wireEdtR (reachable_inv h0 hl h).wire

/-- `edt_adjacent` for the four drivers, with no side condition left: every schedule of `send` /
`run_sequence` callers. -/
theorem edt_adjacent_drivers (d : Driver) {s0 s : St} {ls : List Label} (h0 : s0.initial)
    (hd : DriverSchedule d ls) (h : run? s0 ls = some s) : EdtAdjacent s.wire :=
  edt_adjacent h0 (driverSchedule_ok hd) h

/-- `lock_free_at_end`: when every caller has finished — normally, by an exception or by
cancellation — the transaction lock is free (and so are the inner serialiser and the table of
outstanding commands). -/
theorem lock_free_at_end {s0 s : St} {ls : List Label} (h0 : s0.initial) (hl : ∀ l ∈ ls, l.ok)
    (h : run? s0 ls = some s) (hfin : ∀ (t : Tid) (tk : Async.Task), s.tasks[t]? = some tk → tk.prog = []) :
    s.lock = none ∧ s.inner = [] ∧ s.slots = [] := by
  have hI := reachable_inv h0 hl h
  have key : ∀ t, t < s.tasks.length → (res s t).free = true := by
    intro t ht
    have hget : s.tasks[t]? = some s.tasks[t] := List.getElem?_eq_getElem ht
    have hw := (hI.tasks t _ hget).wf
    rw [hfin t _ hget] at hw
    simpa [wf, wfSeg] using hw
  refine ⟨?_, ?_, ?_⟩
  · cases hlk : s.lock with
    | none => rfl
    | some t =>
      have := key t (hI.lockB t hlk)
      have h2 : (res s t).lock = true := res_lock.mpr hlk
      simp [Res.free, h2] at this
  · cases hin : s.inner with
    | nil => rfl
    | cons t l =>
      have hm : t ∈ s.inner := by rw [hin]; exact List.mem_cons_self
      have := key t (hI.innerB t hm)
      have h2 : (res s t).inner = true := res_inner.mpr hm
      simp [Res.free, h2] at this
  · cases hsl : s.slots with
    | nil => rfl
    | cons x l =>
      have hm : x.2 ∈ s.owners := by simp [St.owners, hsl]
      have := key x.2 (hI.slotB _ hm)
      have h2 : (res s x.2).slot = true := res_slot.mpr hm
      simp [Res.free, h2] at this

/-- `release_on_raise_or_cancel` (and `sequence_closed`): when an action of a task raises out of
the call or the task is cancelled while blocked in it, what remains of the task's program is
exactly the clean-up of its `finally` / `async with` blocks: synchronous actions only, which
release everything the task holds (for a sequence they include `close`: `caller_programs_wf` checks every handler of `seqBody`). -/
theorem release_on_raise_or_cancel {s0 s s' : St} {ls : List Label} (h0 : s0.initial) (hl : ∀ l ∈ ls, l.ok)
    (h : run? s0 ls = some s) {t : Tid} {e : Err} {tk : Task} (ht : s.tasks[t]? = some tk)
    (hnoretry : tk.retry = none) (hstep : step? s (.raise t e) = some s') :
    ∃ tk', s'.tasks[t]? = some tk' ∧ tk'.exc = some e ∧
      cleanupOK (res s' t) (tk'.prog.map (·.act)) = true := by
  have hI := reachable_inv h0 hl h
  simp only [step?, raiseStep, ht] at hstep
  cases hp : tk.prog with
  | nil => simp [hp] at hstep
  | cons st rest =>
    simp only [hp] at hstep
    by_cases hcr : st.act.canRaise = true
    · simp only [hcr, Bool.not_true, Bool.false_eq_true, if_false, hnoretry] at hstep
      have hw := (hI.tasks t tk ht).wf
      rw [hp] at hw
      obtain ⟨hsok, _⟩ := wf_cons hw
      simp only [stepOK, hcr, Bool.not_true, Bool.false_or, Bool.and_eq_true] at hsok
      have hlt := getElem?_lt ht
      have hs' : s' = setTask s t { tk with prog := plain st.h, exc := some e } := by
        cases e <;> simp_all
      subst hs'
      refine ⟨{ tk with prog := plain st.h, exc := some e }, ?_, rfl, ?_⟩
      · simp [setTask, List.getElem?_set, hlt]
      · have hr : res (setTask s t { tk with prog := plain st.h, exc := some e }) t = res s t :=
          res_eq_of Iff.rfl Iff.rfl Iff.rfl
        rw [hr]
        have : (plain st.h).map (·.act) = st.h := by simp [plain, List.map_map, Function.comp_def]
        simp only [this]
        exact hsok.1
    · simp [hcr] at hstep

theorem eff_iacq_pre {r r' : Res} (h : Act.iacq.eff r = some r') : r.lock = true ∧ r.inner = false := by
  obtain ⟨l, i, o⟩ := r
  cases l <;> cases i <;> simp_all [Act.eff]

theorem eff_slot_pre {r r' : Res} (h : Act.slot.eff r = some r') : r.inner = true ∧ r.slot = false := by
  obtain ⟨l, i, o⟩ := r
  cases i <;> cases o <;> simp_all [Act.eff]

/-- `progress_partial` (the lock part of `progress`): in a reachable state with unfinished callers
there is always a task that can take a step or that waits for the environment only (a gateway
report, the connection, a timer) — never a cycle of tasks blocked on the transaction lock or the
inner serialiser.  Every action consumes one step of a finite program, so every caller
completes provided the gateway confirms/answers every write; that liveness of the gateway is an
assumption, it is not modelled. -/
theorem progress_partial {s0 s : St} {ls : List Label} (h0 : s0.initial) (hl : ∀ l ∈ ls, l.ok)
    (h : run? s0 ls = some s) (hcap : 1 ≤ s.cap) {u : Tid} {tku : Task} (hu : s.tasks[u]? = some tku)
    (hunf : tku.prog ≠ []) :
    ∃ t tk st rest, s.tasks[t]? = some tk ∧ tk.prog = st :: rest ∧
      ((step? s (.act t)).isSome = true ∨ st.act.pure = true ∨ (∃ f, st.act = .write f) ∨ st.act = .refuse) := by
  have hI := reachable_inv h0 hl h
  -- the interesting task: the lock holder if there is one, else `u`
  have main : ∀ t tk, s.tasks[t]? = some tk → tk.prog ≠ [] → (s.lock = none ∨ s.lock = some t) →
      ∃ st rest, tk.prog = st :: rest ∧
        ((step? s (.act t)).isSome = true ∨ st.act.pure = true ∨ (∃ f, st.act = .write f) ∨ st.act = .refuse) := by
    intro t tk ht hne hlk
    cases hp : tk.prog with
    | nil => exact absurd hp hne
    | cons st rest =>
      refine ⟨st, rest, rfl, ?_⟩
      have hT := hI.tasks t tk ht
      have hw := hT.wf
      rw [hp] at hw
      obtain ⟨_, r', heff, _⟩ := wf_cons hw
      cases hact : st.act with
      | acq =>
        left
        rw [hact] at heff
        have hl0 := (eff_acq heff).1
        have : s.lock = none := by
          rcases hlk with h1 | h1
          · exact h1
          · rw [res_lock.mpr h1] at hl0; cases hl0
        simp [step?, actStep, ht, hp, hact, this]
      | iacq =>
        left
        rw [hact] at heff
        -- nobody but the lock holder can hold the inner serialiser, and `t` does not hold it
        obtain ⟨hlt, hnin⟩ := eff_iacq_pre heff
        have hlock := res_lock.mp hlt
        have hempty : s.inner = [] := by
          cases hin : s.inner with
          | nil => rfl
          | cons x l =>
            have hm : x ∈ s.inner := by rw [hin]; exact List.mem_cons_self
            have hx := hI.innerB x hm
            have hgx : s.tasks[x]? = some s.tasks[x] := List.getElem?_eq_getElem hx
            have hok := (hI.tasks x _ hgx).ok
            have hxi : (res s x).inner = true := res_inner.mpr hm
            have hxl : (res s x).lock = true := by
              simp only [Res.ok, hxi, Bool.not_true, Bool.false_or, Bool.and_eq_true] at hok
              exact hok.2
            have : x = t := by
              have := res_lock.mp hxl
              rw [hlock] at this; cases this; rfl
            subst this
            rw [hxi] at hnin; cases hnin
        simp only [step?, actStep, ht, hp, hact, hempty, List.length_nil]
        have : 0 < s.cap := hcap
        simp [this]
      | rel => left; simp [step?, actStep, ht, hp, hact]
      | irel => left; simp [step?, actStep, ht, hp, hact]
      | unslot => left; simp [step?, actStep, ht, hp, hact]
      | slot =>
        left
        rw [hact] at heff
        -- no slot is occupied: an owner would hold the lock, so be `t`, who has none
        obtain ⟨hit, hns⟩ := eff_slot_pre heff
        have hlt : (res s t).lock = true := by
          have hok := hT.ok
          simp only [Res.ok, hit, Bool.not_true, Bool.false_or, Bool.and_eq_true] at hok
          exact hok.2
        have hlock := res_lock.mp hlt
        have hempty : s.slots = [] := by
          cases hsl : s.slots with
          | nil => rfl
          | cons x l =>
            have hm : x.2 ∈ s.owners := by simp [St.owners, hsl]
            have hx := hI.slotB _ hm
            have hgx : s.tasks[x.2]? = some s.tasks[x.2] := List.getElem?_eq_getElem hx
            have hok := (hI.tasks x.2 _ hgx).ok
            have hxs : (res s x.2).slot = true := res_slot.mpr hm
            have hxl : (res s x.2).lock = true := by
              cases hi : (res s x.2).inner <;> cases hlk2 : (res s x.2).lock <;>
                simp_all [Res.ok]
            have : x.2 = t := by
              have := res_lock.mp hxl
              rw [hlock] at this; cases this; rfl
            rw [this] at hxs
            rw [hxs] at hns; cases hns
        simp [step?, actStep, ht, hp, hact, hempty]
      | write f => right; right; left; exact ⟨f, rfl⟩
      | refuse => right; right; right; rfl
      | connWait => right; left; simp [Act.pure]
      | connCheck => right; left; simp [Act.pure]
      | await m timed => right; left; simp [Act.pure]
      | flush => right; left; simp [Act.pure]
      | flush1 => right; left; simp [Act.pure]
      | poll => right; left; simp [Act.pure]
      | sleep => right; left; simp [Act.pure]
      | resume => right; left; simp [Act.pure]
      | close => right; left; simp [Act.pure]
  cases hlk : s.lock with
  | none =>
    obtain ⟨st, rest, hp, hx⟩ := main u tku hu hunf (Or.inl hlk)
    exact ⟨u, tku, st, rest, hu, hp, hx⟩
  | some t =>
    have hlt := hI.lockB t hlk
    have hgt : s.tasks[t]? = some s.tasks[t] := List.getElem?_eq_getElem hlt
    have hne : (s.tasks[t]).prog ≠ [] := by
      intro hnil
      have hw := (hI.tasks t _ hgt).wf
      rw [hnil] at hw
      have h2 : (res s t).lock = true := res_lock.mpr hlk
      simp [wf, wfSeg, Res.free, h2] at hw
    obtain ⟨st, rest, hp, hx⟩ := main t _ hgt hne (Or.inr hlk)
    exact ⟨t, _, st, rest, hgt, hp, hx⟩


/-- `progress` (1), connection up: in a reachable state with unfinished callers and `connected` set,
some caller can take a step, or the caller whose turn it is (the lock holder, or any caller if the
lock is free) is blocked in a wait for a gateway report — nothing else can block: not the
transaction lock, not the inner serialiser, not the table of sequence numbers, not the
connection. -/
theorem progress_up {s0 s : St} {ls : List Label} (h0 : s0.initial) (hl : ∀ l ∈ ls, l.ok)
    (h : run? s0 ls = some s) (hcap : 1 ≤ s.cap) (hup : s.conn.up = true) {u : Tid} {tku : Task}
    (hu : s.tasks[u]? = some tku) (hunf : tku.prog ≠ []) :
    ∃ t tk st rest, s.tasks[t]? = some tk ∧ tk.prog = st :: rest ∧
      ((step? s (.act t)).isSome = true ∨ (∃ m timed, st.act = .await m timed) ∨ st.act = .refuse) := by
  obtain ⟨t, tk, st, rest, ht, hp, hx⟩ := progress_partial h0 hl h hcap hu hunf
  refine ⟨t, tk, st, rest, ht, hp, ?_⟩
  have hfd : s.conn.fd = true := by
    simp only [Conn.Conn.up, Bool.and_eq_true] at hup; exact hup.1
  rcases hx with hx | hx | ⟨f, hf⟩ | hr
  · exact Or.inl hx
  · cases hact : st.act with
    | await m timed => exact Or.inr (Or.inl ⟨m, timed, rfl⟩)
    | refuse => rw [hact] at hx; simp [Act.pure] at hx
    | connWait => left; simp [step?, actStep, ht, hp, hact, hup]
    | connCheck => left; simp [step?, actStep, ht, hp, hact, hup]
    | flush => left; simp [step?, actStep, ht, hp, hact]
    | flush1 => left; simp [step?, actStep, ht, hp, hact]
    | poll => left; simp only [step?, actStep, ht, hp, hact]; split <;> rfl
    | sleep => left; simp [step?, actStep, ht, hp, hact]
    | resume => left; simp [step?, actStep, ht, hp, hact]
    | close => left; simp [step?, actStep, ht, hp, hact]
    | acq => rw [hact] at hx; simp [Act.pure] at hx
    | rel => rw [hact] at hx; simp [Act.pure] at hx
    | iacq => rw [hact] at hx; simp [Act.pure] at hx
    | irel => rw [hact] at hx; simp [Act.pure] at hx
    | slot => rw [hact] at hx; simp [Act.pure] at hx
    | unslot => rw [hact] at hx; simp [Act.pure] at hx
    | write f => rw [hact] at hx; simp [Act.pure] at hx
  · left; simp [step?, actStep, ht, hp, hf, hfd]
  · exact Or.inr (Or.inr hr)

/-- no caller's next step is the refusal of a frame its gateway cannot carry.  A pending refusal is not a hang
(`refusal_leaves_the_call`: its exception is always enabled and takes the caller to its clean-up), it is simply
not an `act` step; `progress` and `nobody_hangs` speak about the others. -/
def NoRefusalPending (s : St) : Prop :=
  ∀ (t : Tid) (tk : Task) (st : Step) (rest : List Step),
    s.tasks[t]? = some tk → tk.prog = st :: rest → st.act ≠ .refuse

/-- A refusal leaves the call, whatever the `exceptions` switch says: `UnsupportedFrameTypeError` is not a
CommunicationError, so the HID retry loop (`retry`) is NOT entered - the caller goes to the clean-up of its exit
with the exception recorded; and there is no other way past a refusal. -/
theorem refusal_leaves_the_call {s : St} {t : Tid} {tk : Task} {st : Step} {rest : List Step}
    (ht : s.tasks[t]? = some tk) (hp : tk.prog = st :: rest) (ha : st.act = .refuse) :
    step? s (.act t) = none ∧
    step? s (.raise t .unsupported) =
      some (setTask s t { tk with prog := plain st.h, exc := some .unsupported }) := by
  constructor
  · simp [step?, actStep, ht, hp, ha]
  · simp only [step?, raiseStep, ht, hp, ha, Act.canRaise]
    cases tk.retry <;> rfl

/-- `progress` (2): with `connected` set and a gateway that answers every write
(`GatewayAnswers`: the report each waiting caller waits for is there — the environment-liveness
assumption, stated as a hypothesis), a reachable state with an unfinished caller always has an
enabled caller step, and that step strictly decreases the number of caller steps still to run. -/
theorem progress {s0 s : St} {ls : List Label} (h0 : s0.initial) (hl : ∀ l ∈ ls, l.ok)
    (h : run? s0 ls = some s) (hcap : 1 ≤ s.cap) (hup : s.conn.up = true) (hgw : GatewayAnswers s)
    (hnr : NoRefusalPending s)
    {u : Tid} {tku : Task} (hu : s.tasks[u]? = some tku) (hunf : tku.prog ≠ []) :
    ∃ t s', step? s (.act t) = some s' ∧ measure s' + 1 = measure s := by
  obtain ⟨t, tk, st, rest, ht, hp, hx⟩ := progress_up h0 hl h hcap hup hu hunf
  have hen : (step? s (.act t)).isSome = true := by
    rcases hx with hx | ⟨m, timed, ha⟩ | hr
    · exact hx
    · obtain ⟨mail', hm⟩ := hgw t tk st rest m timed ht hp ha
      simp [step?, actStep, ht, hp, ha, hm]
    · exact absurd hr (hnr t tk st rest ht hp)
  cases hs : step? s (.act t) with
  | none => rw [hs] at hen; cases hen
  | some s' => exact ⟨t, s', hs, act_measure hs⟩

/-- `progress` (3), termination bound: in a schedule without exceptions, cancellations and new
callers, the caller steps taken are exactly the decrease of the measure — no schedule keeps the
callers busy for more than `measure s` steps, and when that many have been taken every caller has
finished.  With (2): under a fair scheduler, a connected driver and an answering gateway, every
caller completes. -/
theorem caller_steps_bounded {s s' : St} {ls : List Label} (hf : ∀ l ∈ ls, l.faultFree = true)
    (h : run? s ls = some s') :
    nActs ls + measure s' = measure s ∧
    (nActs ls = measure s → ∀ (t : Tid) (tk : Task), s'.tasks[t]? = some tk → tk.prog = []) := by
  have hm := run_measure hf h
  refine ⟨hm, fun he => measure_zero_iff.mp (by omega)⟩

/-- `progress` (4), nobody hangs: a reachable state in which no caller can move, with `connected`
set and the gateway having answered, has no unfinished caller. -/
theorem nobody_hangs {s0 s : St} {ls : List Label} (h0 : s0.initial) (hl : ∀ l ∈ ls, l.ok)
    (h : run? s0 ls = some s) (hcap : 1 ≤ s.cap) (hup : s.conn.up = true) (hgw : GatewayAnswers s)
    (hnr : NoRefusalPending s)
    (hq : Quiescent s) : ∀ (t : Tid) (tk : Task), s.tasks[t]? = some tk → tk.prog = [] := by
  intro u tku hu
  cases hp : tku.prog with
  | nil => rfl
  | cons st rest =>
    obtain ⟨t, s', hs, _⟩ := progress h0 hl h hcap hup hgw hnr hu (by rw [hp]; simp)
    rw [hq t] at hs; cases hs

/-! ## a retried send starts its unit again from the top -/

/-- the frames a program puts on the wire, in program order -/
def writesOf : List Step → List WFrame
  | [] => []
  | st :: p => match st.act with
    | .write f => f :: writesOf p
    | _ => writesOf p

theorem writesOf_append (p q : List Step) : writesOf (p ++ q) = writesOf p ++ writesOf q := by
  induction p with
  | nil => rfl
  | cons st p ih =>
    simp only [List.cons_append, writesOf]
    cases st.act <;> simp [ih]

theorem writesOf_plain {l : List Act} (h : l.all Act.isCleanup = true) : writesOf (plain l) = [] := by
  induction l with
  | nil => rfl
  | cons a l ih =>
    simp only [List.all_cons, Bool.and_eq_true] at h
    simp only [plain, List.map_cons, writesOf]
    cases a <;> simp_all [Act.isCleanup, plain]

/-- the unit of one HID `send`: EnableDeviceType when the command needs a device type, then the
command (the hasseb driver writes a send-twice frame twice itself) -/
def unitFrames (d : Driver) (c : Cmd) : List WFrame :=
  (if c.frame.dt = 0 then [] else [edtFrame c.frame.dt]) ++
  (if d = .hasseb ∧ c.frame.twice = true then [c.frame, { c.frame with dt := 0 }] else [c.frame])

theorem writesOf_rawSend (d : Driver) (hd : d = .tridonic ∨ d = .hasseb) (c : Cmd) (out : List Act)
    (hc : d.carries c.frame = true) :
    writesOf (rawSend d c out) =
      (if d = .hasseb ∧ c.frame.twice = true then [c.frame, { c.frame with dt := 0 }] else [c.frame]) := by
  unfold rawSend
  simp only [hc, Bool.not_true, Bool.false_eq_true, if_false]
  obtain ⟨⟨bits, data, twice, dt⟩, query⟩ := c
  rcases hd with rfl | rfl <;> cases twice <;> cases query <;>
    simp [tridonicRaw, hassebRaw, writesOf]

/-- a frame length the gateway cannot carry: the send writes NOTHING (its only step is the refusal) -/
theorem refused_writes_nothing (d : Driver) (c : Cmd) (out : List Act) (hc : d.carries c.frame = false) :
    writesOf (rawSend d c out) = [] ∧ rawSend d c out = [ { act := .refuse, h := out } ] := by
  unfold rawSend
  simp [hc, writesOf]

theorem carries_edt (d : Driver) (dt : Nat) : d.carries (edtFrame dt) = true := by
  cases d <;> simp [Driver.carries, edtFrame]

theorem writesOf_withEdt (d : Driver) (hd : d = .tridonic ∨ d = .hasseb) (c : Cmd) (out : List Act)
    (hc : d.carries c.frame = true) :
    writesOf (withEdt d c out) = unitFrames d c := by
  unfold withEdt unitFrames
  by_cases h : c.frame.dt = 0
  · simp only [h, if_true, List.nil_append]; exact writesOf_rawSend d hd c out hc
  · simp only [h, if_false, writesOf_append, writesOf_rawSend d hd c out hc,
      writesOf_rawSend d hd (edtCmd c.frame.dt) out (carries_edt d _)]
    rcases hd with rfl | rfl <;> simp [edtCmd, edtFrame]


/-- what `raise t e` does to the task table: task `t` gets a new program - the clean-up of the exit, or
(CommunicationError inside the HID send loop with exceptions off) the clean-up back to the loop head followed
by the retry body; its retry body, the lock and the log are untouched -/
theorem raiseStep_shape {s s' : St} {t : Tid} {e : Err} (h : raiseStep s t e = some s') :
    ∃ tk st rest tk', s.tasks[t]? = some tk ∧ tk.prog = st :: rest ∧ s'.tasks = s.tasks.set t tk' ∧
      tk'.retry = tk.retry ∧ tk'.tag = tk.tag ∧ s'.lock = s.lock ∧ s'.log = s.log ∧
      ((tk'.prog = plain st.h ∧ tk'.exc = some e ∧ (e ≠ .comm ∨ tk.retry = none)) ∨
       (∃ body, e = .comm ∧ tk.retry = some body ∧ st.act.canComm = true ∧
          tk'.prog = plain st.hr ++ body ∧ tk'.exc = tk.exc)) := by
  unfold raiseStep at h
  cases ht : s.tasks[t]? with
  | none => simp [ht] at h
  | some tk =>
    simp only [ht] at h
    obtain ⟨prog, retry, exc0, tag⟩ := tk
    cases prog with
    | nil => simp at h
    | cons st rest =>
      simp only at h
      by_cases hcr : st.act.canRaise = true
      · simp only [hcr, Bool.not_true, Bool.false_eq_true, if_false] at h
        have hexit : some (setTask s t { prog := plain st.h, retry := retry, exc := some e, tag := tag }) = some s' →
            (e ≠ .comm ∨ retry = none) →
            ∃ tk st' rest' tk', some (Async.Task.mk (st :: rest) retry exc0 tag) = some tk ∧ tk.prog = st' :: rest' ∧
                s'.tasks = s.tasks.set t tk' ∧ tk'.retry = tk.retry ∧ tk'.tag = tk.tag ∧ s'.lock = s.lock ∧ s'.log = s.log ∧
                ((tk'.prog = plain st'.h ∧ tk'.exc = some e ∧ (e ≠ .comm ∨ tk.retry = none)) ∨
                 (∃ body, e = .comm ∧ tk.retry = some body ∧ st'.act.canComm = true ∧
                    tk'.prog = plain st'.hr ++ body ∧ tk'.exc = tk.exc)) := by
          intro hx hside
          cases hx
          exact ⟨_, st, rest, { prog := plain st.h, retry := retry, exc := some e, tag := tag },
              rfl, rfl, rfl, rfl, rfl, rfl, rfl, Or.inl ⟨rfl, rfl, hside⟩⟩
        cases retry with
        | none => cases e <;> (simp only at h; exact hexit h (Or.inr rfl))
        | some body =>
          cases e with
          | comm =>
            simp only at h
            by_cases hcc : st.act.canComm = true
            · simp only [hcc, if_true] at h
              cases h
              exact ⟨_, st, rest, { prog := plain st.hr ++ body, retry := some body, exc := exc0, tag := tag },
                rfl, rfl, rfl, rfl, rfl, rfl, rfl, Or.inr ⟨body, rfl, rfl, hcc, rfl, rfl⟩⟩
            · simp [hcc] at h
          | timeout => simp only at h; exact hexit h (Or.inl (by simp))
          | io => simp only at h; exact hexit h (Or.inl (by simp))
          | cancelled => simp only at h; exact hexit h (Or.inl (by simp))
          | boom => simp only at h; exact hexit h (Or.inl (by simp))
          | assertion => simp only at h; exact hexit h (Or.inl (by simp))
          | oserror => simp only at h; exact hexit h (Or.inl (by simp))
          | unsupported => simp only at h; exact hexit h (Or.inl (by simp))
      · simp [hcr] at h

/-- the retry body of every caller is the one `send` / `run_sequence` of driver `d` gave it -/
def RetryFrom (d : Driver) (tasks : List Async.Task) : Prop :=
  ∀ (t : Tid) (tk : Async.Task), tasks[t]? = some tk → ∃ c, tk.retry = (mkTask d c).retry

theorem retryFrom_set {d : Driver} {tasks : List Async.Task} {t : Tid} {tk tk' : Async.Task}
    (hR : RetryFrom d tasks) (ht : tasks[t]? = some tk) (hr : tk'.retry = tk.retry) :
    RetryFrom d (tasks.set t tk') := by
  intro u tku hu
  rw [List.getElem?_set] at hu
  by_cases hut : t = u
  · subst hut
    have hlt := getElem?_lt ht
    simp only [hlt, if_true] at hu
    cases hu
    rw [hr]; exact hR t tk ht
  · simp only [hut, if_false] at hu
    exact hR u tku hu

theorem step_retryFrom {d : Driver} {s s' : St} {l : Label}
    (hl : match l with | .spawn tk => ∃ c, tk = mkTask d c | _ => True)
    (hR : RetryFrom d s.tasks) (h : step? s l = some s') : RetryFrom d s'.tasks := by
  cases l with
  | spawn tk =>
    obtain ⟨c, rfl⟩ := hl
    simp only [step?] at h; cases h
    intro u tku hu
    simp only [List.getElem?_append] at hu
    split at hu
    · exact hR u tku hu
    · have : u - s.tasks.length = 0 := by
        cases hx : u - s.tasks.length with
        | zero => rfl
        | succ n => simp [hx] at hu
      simp only [this, List.getElem?_cons_zero] at hu
      cases hu; exact ⟨c, rfl⟩
  | act t =>
    simp only [step?] at h
    obtain ⟨tk, st, rest, tag', ht, _, hts, _, _⟩ := actStep_shape h
    rw [hts]
    exact retryFrom_set hR ht (tk' := { tk with prog := rest, tag := tag' }) rfl
  | raise t e =>
    simp only [step?] at h
    obtain ⟨tk, st, rest, tk', ht, _, hts, hr, _⟩ := raiseStep_shape h
    rw [hts]
    exact retryFrom_set hR ht hr
  | deliver g m =>
    simp only [step?] at h
    split at h <;> cases h <;> exact hR
  | env e =>
    simp only [step?] at h
    cases hc : Conn.step s.conn e with
    | none => simp [hc] at h
    | some c' =>
      simp only [hc] at h
      split at h <;> cases h <;> exact hR

theorem run_retryFrom {d : Driver} {s s' : St} {ls : List Label} (hd : DriverSchedule d ls)
    (hR : RetryFrom d s.tasks) (h : run? s ls = some s') : RetryFrom d s'.tasks := by
  induction ls generalizing s with
  | nil => simp only [run?] at h; cases h; exact hR
  | cons l ls ih =>
    simp only [run?] at h
    cases hs : step? s l with
    | none => simp [hs] at h
    | some s1 =>
      simp only [hs] at h
      exact ih (fun x hx => hd x (List.mem_cons_of_mem _ hx))
        (step_retryFrom (hd l List.mem_cons_self) hR hs) h


theorem mem_plain {l : List Act} (h : l.all Act.isCleanup = true) : ∀ x ∈ plain l, x.act.isCleanup = true := by
  intro x hx
  simp only [plain, List.mem_map] at hx
  obtain ⟨a, ha, rfl⟩ := hx
  exact (List.all_eq_true.mp h) a ha

/-- the caller whose retry body is set is a HID `send` with exceptions off -/
theorem retry_body_of {d : Driver} {call : Call} {body : List Step} (h : (mkTask d call).retry = some body) :
    (d = .tridonic ∨ d = .hasseb) ∧ ∃ c, call = .send c false ∧ body = withEdt d c [Act.rel] ++ [{ act := .rel }] := by
  cases call with
  | seq items => cases d <;> simp [mkTask] at h
  | send c exc =>
    cases d <;> cases exc <;> simp [mkTask] at h
    · exact ⟨Or.inl rfl, c, rfl, h.symm⟩
    · exact ⟨Or.inr rfl, c, rfl, h.symm⟩

/-- `retry_resends_whole_unit` (strengthening after seeded round 2): in every reachable state of every schedule
of `send` / `run_sequence` callers, when a CommunicationError hits a caller whose `send` runs with exceptions
off — at ANY step of its unit: during the EnableDeviceType prefix or during the command itself, at the write or
in a wait — the caller does not leave the call; what remains of its program is the synchronous clean-up back to
the loop head (no frame written), then the WHOLE unit again and the release of the lock: the frames of the
retried unit are exactly `unitFrames d c`, i.e. for a command that needs a device type the first frame written
after the failure is EnableDeviceType again, never the bare command.  The lock and the wire log are untouched
by the failure itself, so with `edt_adjacent` the device-type frame of the retry is again directly preceded by
its prefix on the wire. -/
theorem retry_resends_whole_unit (d : Driver) {s0 s s' : St} {ls : List Label} (h0 : s0.initial)
    (hd : DriverSchedule d ls) (h : run? s0 ls = some s) {t : Tid} {tk : Async.Task}
    (ht : s.tasks[t]? = some tk) (hretry : tk.retry.isSome = true)
    (hstep : step? s (.raise t .comm) = some s') :
    ∃ (c : Cmd) (st : Step) (rest cleanup : List Step) (tk' : Async.Task),
      tk.prog = st :: rest ∧ st.act.canComm = true ∧
      s'.tasks[t]? = some tk' ∧ tk'.exc = tk.exc ∧ tk'.retry = tk.retry ∧ s'.lock = s.lock ∧ s'.log = s.log ∧
      tk'.prog = cleanup ++ withEdt d c [Act.rel] ++ [{ act := .rel }] ∧
      (∀ x ∈ cleanup, x.act.isCleanup = true) ∧ writesOf cleanup = [] ∧
      (d.carries c.frame = true → writesOf (withEdt d c [Act.rel]) = unitFrames d c) ∧
      (c.frame.dt ≠ 0 → (unitFrames d c).head? = some (edtFrame c.frame.dt)) ∧
      edtOK none (withEdt d c [Act.rel]) = true := by
  have hI := reachable_inv h0 (driverSchedule_ok hd) h
  have hR : RetryFrom d s.tasks :=
    run_retryFrom hd (by intro u tku hu; rw [h0.1] at hu; simp at hu) h
  simp only [step?] at hstep
  obtain ⟨tk0, st, rest, tk', ht0, hp, hts, hr, _, hlock, hlog, hcase⟩ := raiseStep_shape hstep
  rw [ht] at ht0; cases ht0
  obtain ⟨call, hcall⟩ := hR t tk ht
  cases hb : tk.retry with
  | none => rw [hb] at hretry; cases hretry
  | some body =>
    rw [hb] at hcall
    obtain ⟨hdd, c, _, hbody⟩ := retry_body_of hcall.symm
    have hlt := getElem?_lt ht
    have hget : s'.tasks[t]? = some tk' := by rw [hts]; simp [hlt]
    rcases hcase with ⟨_, _, hside⟩ | ⟨body', _, hb', hcc, hprog, hexc⟩
    · -- leaving the call is impossible for `comm` while a retry body is set
      rcases hside with h1 | h1
      · exact absurd rfl h1
      · rw [hb] at h1; cases h1
    · rw [hb] at hb'; cases hb'
      have hw := (hI.tasks t tk ht).wf
      rw [hp] at hw
      obtain ⟨hsok, _⟩ := wf_cons hw
      have hro : retryOK (res s t) st.hr = true := by
        simp only [stepOK, Bool.and_eq_true, Bool.or_eq_true] at hsok
        rcases hsok.2 with h1 | h1
        · simp [hb, hcc] at h1
        · exact h1
      simp only [retryOK, Bool.and_eq_true] at hro
      refine ⟨c, st, rest, plain st.hr, tk', hp, hcc, hget, hexc, hr.trans hb, hlock, hlog, ?_, mem_plain hro.1,
        writesOf_plain hro.1, fun hc => writesOf_withEdt d hdd c _ hc, ?_, ?_⟩
      · rw [hprog, hbody, List.append_assoc]
      · intro hne; simp [unitFrames, hne]
      · obtain ⟨x, hx⟩ := withEdt_edt d c [Act.rel] none
        simp [edtOK, hx]

/-! ## non-vacuity -/

/-- a two-caller run on the Tridonic model that ends with both callers done and the expected wire -/
example :
    let c6 : Cmd := ⟨⟨16, 0x03ED, false, 6⟩, true⟩
    (mkTask .tridonic (.send c6 true)).ok = true ∧ (mkTask .luba (.seq [.cmd c6, .sleep])).ok = true := by
  exact ⟨mkTask_ok _ _, mkTask_ok _ _⟩

/-- a retried unit in the model: Tridonic `send(QueryGearType, exceptions=False)`, the gateway is lost while the
command itself is in flight (the EnableDeviceType prefix had completed), comes back, the handshake is repeated:
the wire holds prefix + command twice, everything is released -/
example :
    let c6 : Cmd := ⟨⟨16, 0x03ED, false, 6⟩, true⟩
    let s0 : St := { cap := 2, conn := { limit := none, hsSteps := 2 } }
    (run? s0 ([.env .connect, .env .hs, .env .hs, .spawn (mkTask .tridonic (.send c6 false)),
              .act 0, .act 0, .act 0, .act 0, .act 0, .deliver 1 .echo, .act 0, .deliver 1 .answer, .act 0, .act 0, .act 0,
              .act 0, .act 0, .act 0, .act 0,
              .env .lose, .raise 0 .comm, .act 0, .act 0,
              .env .back, .env .timer, .env .hs, .env .hs,
              .act 0, .act 0, .act 0, .act 0, .deliver 3 .echo, .act 0, .deliver 3 .answer, .act 0, .act 0, .act 0,
              .act 0, .act 0, .act 0, .act 0, .deliver 4 .echo, .act 0, .deliver 4 .answer, .act 0, .act 0, .act 0,
              .act 0])).map
      (fun s => (s.wire.map (·.2.data), s.tasks.all Task.finished && s.lock.isNone && s.inner.isEmpty && s.slots.isEmpty)) =
    some ([0xC106, 0x03ED, 0xC106, 0x03ED], true) := by decide

/-- a refused send in the model: hasseb `send(<24-bit frame>, exceptions=False)` - the lock is taken, the refusal
cannot be passed (`act` is not enabled), its exception is; after the clean-up the caller has finished with the
exception recorded, NOTHING is on the wire and the lock is free: no retry although exceptions are off -/
example :
    let c24 : Cmd := ⟨⟨24, 0xC10000, false, 0⟩, false⟩
    let s0 : St := { cap := 1, conn := { limit := none, hsSteps := 0 } }
    (mkTask .hasseb (.send c24 false)).ok = true ∧
    (run? s0 [.env .connect, .spawn (mkTask .hasseb (.send c24 false)), .act 0, .act 0]).isNone = true ∧
    (run? s0 [.env .connect, .spawn (mkTask .hasseb (.send c24 false)), .act 0, .raise 0 .unsupported, .act 0]).map
      (fun s => (s.wire.length, s.tasks.all Task.finished, s.lock.isNone,
                 s.tasks.map (fun tk => tk.exc == some Err.unsupported))) =
    some (0, true, true, [true]) := by decide

/-- K1 on the unchanged tree: the serial `send` without EnableDeviceType is NOT well formed -/
theorem k1_witness_old_serial_send :
    (mkTaskOldSerialSend .luba ⟨⟨16, 0x03ED, false, 6⟩, true⟩).ok = false := by decide

end DaliVerif.Props.C15
