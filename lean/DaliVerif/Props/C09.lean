import DaliVerif.Proofs.MemSeq
import DaliVerif.Gen.MemSeqTables
/-!
# C09 — memory-bank reads return the declared bytes and leave the unit untouched

`MemoryValue.read_raw` and `MemoryBank.read_all` (models in `Model/MemSeq.lean`,
of the code after the F3 and K2 repairs) run against the specification memory
unit of IEC 62386-102 §9.10 (`Spec/MemUnit.lean`), and against any responder
for the fault clause.  Quantified over every location list (any order, any
length), every image, last accessible location, hole set, stale register
content, write-enable state, gear and device, latch on/off — no bounds.
-/
namespace DaliVerif.Props.C09
open DaliVerif DaliVerif.DevMem DaliVerif.DevMem.Prog

/-- **read_raw, bank implemented.**  For a conforming unit whose cell contents do
not change during the read (static, or latched), whatever DTR0/1/2 and
write-enable held before: the result is exactly the bytes at the declared
locations, in order, if every location is readable (≤ last accessible location
and implemented), and `MemoryLocationNotImplemented` otherwise; the bank (memory
contents, lock byte, latch) is unchanged. -/
theorem readRaw_spec (u : MemUnit) (dev : Bool) (a bank : Nat) (locs : List Nat)
    (hl : u.Listens dev a) (hadv : u.advance = true) (hb : u.bank.number = bank) (hst : u.bank.Stable)
    (hlocs : ∀ l ∈ locs, l ≤ 255) :
    ((readRaw (if dev then .devShort a else .gearShort a) bank locs).run MemUnit.step u).1 =
      (if ∀ l ∈ locs, u.bank.readable l = true then .ok (locs.map (u.bank.content 0))
       else .error .MemoryLocationNotImplemented) ∧
    ((readRaw (if dev then .devShort a else .gearShort a) bank locs).run MemUnit.step u).2.bank = u.bank := by
  obtain ⟨h1, h2⟩ := readRaw_run u dev a bank locs hl hadv hb hst hlocs
  refine ⟨?_, h2⟩
  rw [h1]
  by_cases h : ∀ l ∈ locs, u.bank.readable l = true
  · rw [if_pos h, Bank.readCells_eq_map _ _ _ h]; rfl
  · rw [if_neg h]
    have : (u.bank.readCells 0 locs).isSome = false := by
      cases hs : (u.bank.readCells 0 locs).isSome
      · rfl
      · exact absurd ((Bank.readCells_isSome _ _ _).mp hs) h
    cases hc : u.bank.readCells 0 locs with
    | none => rfl
    | some x => rw [hc] at this; cases this

/-- **read_raw, bank not implemented** by the unit: `MemoryLocationNotImplemented`, nothing changed. -/
theorem readRaw_absent (u : MemUnit) (dev : Bool) (a bank : Nat) (locs : List Nat)
    (hl : u.Listens dev a) (hb : u.bank.number ≠ bank) (hne : locs ≠ []) :
    ((readRaw (if dev then .devShort a else .gearShort a) bank locs).run MemUnit.step u).1 =
      .error .MemoryLocationNotImplemented ∧
    ((readRaw (if dev then .devShort a else .gearShort a) bank locs).run MemUnit.step u).2.bank = u.bank :=
  readRaw_run_absent u dev a bank locs hl hb hne

/-- **read_raw against any responder** (silence, framing errors, anything, at any
read): a byte string is returned only when every READ MEMORY LOCATION was
answered by a clean backward frame, and it is exactly those answers, one per
location; the first silent read gives `MemoryLocationNotImplemented`, the first
garbled one `ResponseError`; nothing else can happen. -/
theorem readRaw_faults (dev : Bool) (a : Nat) (locs : List Nat) (d : Option Nat)
    (tr : List (Cmd × Resp)) (out : PyRes (List Nat)) (h : Out (readLoop dev a locs d []) tr out) :
    (∃ bs, out = .ok bs ∧ readAnswers tr = bs.map .byte ∧ bs.length = locs.length) ∨
    (∃ bs : List Nat, out = .error .MemoryLocationNotImplemented ∧ readAnswers tr = bs.map .byte ++ [.none]) ∨
    (∃ bs : List Nat, out = .error .ResponseError ∧ readAnswers tr = bs.map .byte ++ [.err]) := by
  simpa using readLoop_faults dev a locs d [] tr out h

/-- **the sequential reads of read_all**: `n` reads from DTR0 = s return, cell by
cell, what the unit holds at the moment of each read (`none` for a cell beyond
the last accessible location or unimplemented); DTR0 auto-increments, the bank
is untouched. -/
theorem readAllLoop_spec (dev : Bool) (a n : Nat) (u : MemUnit) (acc : List (Option Nat))
    (hl : u.Listens dev a) (hadv : u.advance = true) (hb : u.dtr1 = u.bank.number)
    (hd : u.dtr0 ≤ 255) (hn : u.dtr0 + n ≤ 256) :
    (readAllLoop dev a n acc).run MemUnit.step u =
      (.ok (acc ++ (List.range n).map (fun j => u.bank.cellAt (u.clock + j) (u.dtr0 + j)), false),
        { u with clock := u.clock + n, dtr0 := min (u.dtr0 + n) 255, we := if n = 0 then u.we else false }) :=
  readAllLoop_run dev a n u acc hl hadv hb hd hn

/-- **read_all leaves the unit as it found it** (needs the F3 repair): for every
conforming unit implementing the bank, every image, last location, stale
registers, gear or device, latch requested or not — the writable memory and the
environment are untouched, the bank is **not latched** afterwards, and the lock
byte is 0xFF when the latch was used (and could be set: `2 ≤ last`), else what
it was. -/
theorem readAll_restores (u : MemUnit) (dev : Bool) (a bank : Nat) (hasLatch useLatch : Bool)
    (hl : u.Listens dev a) (hadv : u.advance = true) (hb : u.bank.number = bank)
    (hlast : u.bank.last ≤ 255) (hla : u.bank.hasLatch = hasLatch) :
    ∀ r, r = (readAll (if dev then .devShort a else .gearShort a) bank hasLatch useLatch).run MemUnit.step u →
    r.2.bank.rw = u.bank.rw ∧ r.2.bank.live = u.bank.live ∧ r.2.bank.last = u.bank.last ∧
    r.2.bank.snap = (if (useLatch && hasLatch) = true ∧ 2 ≤ u.bank.last then none else u.bank.snap) ∧
    r.2.bank.lockByte = (if (useLatch && hasLatch) = true ∧ 2 ≤ u.bank.last then 0xFF else u.bank.lockByte) := by
  intro r hr
  have := readAll_run u dev a bank hasLatch useLatch hl hadv hb hlast
  simp only at this
  rw [this] at hr
  subst hr
  clear this
  cases useLatch <;> cases hasLatch
  · simp [MemUnit.afterLatch]
  · simp [MemUnit.afterLatch]
  · simp [MemUnit.afterLatch]
  · by_cases h2 : 2 ≤ u.bank.last
    · simp [MemUnit.afterLatch, Bank.canWrite, Bank.implemented, Bank.isLockCell, Bank.store, hla, h2]
    · simp [MemUnit.afterLatch, Bank.canWrite, Bank.implemented, Bank.isLockCell, Bank.store, hla, h2]

/-- **read_all, what is read — latch used** (latching bank, `2 ≤ last`): for *any*
environment (read-only cells may change between any two commands) `raw_data` is,
cell by cell from the start address to the last accessible location, the
snapshot taken when the latch command executed (`live (clock + 5)`), `None` for
header cells and unimplemented cells. -/
theorem readAll_spec (u : MemUnit) (dev : Bool) (a bank : Nat) (useLatch : Bool)
    (hl : u.Listens dev a) (hadv : u.advance = true) (hb : u.bank.number = bank)
    (hlast : u.bank.last ≤ 255) (hla : u.bank.hasLatch = true) (hu : useLatch = true) (h2 : 2 ≤ u.bank.last) :
    ((readAll (if dev then .devShort a else .gearShort a) bank true useLatch).run MemUnit.step u).1 =
      .ok (List.replicate (if bank = 0 then 2 else 3) none ++
        (List.range (u.bank.last + 1 - (if bank = 0 then 2 else 3))).map (fun j =>
          ({ u.bank with lockByte := 0xAA, snap := some (u.clock + 5) } : Bank).cellAt 0
            ((if bank = 0 then 2 else 3) + j))) := by
  have := readAll_run u dev a bank true useLatch hl hadv hb hlast
  simp only at this
  rw [this]
  subst hu
  simp only [Bool.and_self]
  congr 2
  apply List.map_congr_left
  intro j _
  simp [MemUnit.afterLatch, Bank.canWrite, Bank.implemented, Bank.isLockCell, Bank.store, hla, h2,
    Bank.cellAt, Bank.content, Bank.readable]

/-- **read_all, what is read — no latch**: each cell as it is at the moment it is
read (the k-th read happens at `clock + 4 + k`). -/
theorem readAll_spec_unlatched (u : MemUnit) (dev : Bool) (a bank : Nat) (hasLatch useLatch : Bool)
    (hl : u.Listens dev a) (hadv : u.advance = true) (hb : u.bank.number = bank)
    (hlast : u.bank.last ≤ 255) (hno : (useLatch && hasLatch) = false) :
    ((readAll (if dev then .devShort a else .gearShort a) bank hasLatch useLatch).run MemUnit.step u).1 =
      .ok (List.replicate (if bank = 0 then 2 else 3) none ++
        (List.range (u.bank.last + 1 - (if bank = 0 then 2 else 3))).map (fun j =>
          u.bank.cellAt (u.clock + 4 + j) ((if bank = 0 then 2 else 3) + j))) := by
  have := readAll_run u dev a bank hasLatch useLatch hl hadv hb hlast
  simp only at this
  rw [this, hno]
  simp [MemUnit.afterLatch]

/-- `from_list` is `read_raw` on the list: the bytes at the value's locations, or
`MemoryLocationNotImplemented` (`none`) as soon as one is `None` / out of range -/
theorem fromList_spec (raw : List (Option Nat)) (locs : List Nat) :
    fromList raw locs = locs.foldr (fun l acc =>
      match raw[l]?, acc with
      | some (some b), some bs => some (b :: bs)
      | _, _ => none) (some []) := by
  induction locs with
  | nil => rfl
  | cons l ls ih =>
    simp only [fromList, List.foldr_cons, ← ih]
    cases raw[l]? with
    | none => rfl
    | some o => cases o with
      | none => rfl
      | some b => cases fromList raw ls <;> rfl

/-- the regenerated tables are well-formed for these theorems: nine banks, every
location address fits a byte (what `hlocs` asks for) -/
theorem tables_ok :
    DaliVerif.Gen.MemSeqTables.banks.length = 9 ∧
    DaliVerif.Gen.MemSeqTables.values.all (fun v => v.locs.all (fun l => decide (l.1 ≤ 254))) = true := by
  decide +kernel

/-! ## non-vacuity -/

def witnessBank : Bank :=
  { number := 202, last := 15, impl := fun a => a ≤ 15, access := fun _ => .ro,
    live := fun t a => (a + t) % 256, rw := fun _ => 0, hasLock := false, hasLatch := true,
    lockByte := 0xFF, snap := none }

def witnessUnit : MemUnit :=
  { dev := false, addr := 5, clock := 0, dtr0 := 9, dtr1 := 7, dtr2 := 0, we := false,
    bank := witnessBank, advance := true, unlockValue := 0x55 }

/-- read_all with the latch on the drifting witness bank leaves lock byte 0xFF, not latched -/
example : ∀ r, r = (readAll (.gearShort 5) 202 true true).run MemUnit.step witnessUnit →
    r.2.bank.snap = none ∧ r.2.bank.lockByte = 0xFF := by
  intro r hr
  have := readAll_restores witnessUnit false 5 202 true true ⟨rfl, rfl⟩ rfl rfl (by decide) rfl r hr
  simpa [witnessUnit, witnessBank] using this.2.2.2

end DaliVerif.Props.C09
