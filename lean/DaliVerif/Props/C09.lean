import DaliVerif.Model.MemSeq
import DaliVerif.Spec.MemUnit
import DaliVerif.Gen.MemSeqTables
namespace DaliVerif.Props.C09
theorem tables_ok : DaliVerif.Gen.MemSeqTables.banks.length = 9 := by decide
end DaliVerif.Props.C09
