import DaliVerif.Proofs.AnswerTable
import DaliVerif.Proofs.Routing
/-!
# C16 — what `send` returns, and to whom

Property theorems only.  The models are `Model/Answer.lean` (the status →
response code of the six drivers) and `Model/Routing.lean` (how a gateway
report reaches the waiting caller); `Spec/AnswerTable.lean` says what each
gateway's protocol reports for a bus outcome and what the property asks of
`send`'s result (`conforms`).

* Part A: the pure mappings — class of the response object, `None` exactly for
  a command that expects no answer, the status tables.
* Part B: routing — a caller is only ever handed reports about its own command
  (Tridonic sequence numbers, across wrap-around), and never a report that was
  stored / queued before its own write (hasseb slot, LUBA / SCI queue).

One excluded point is stated as a witness next to the theorem it limits:
hasseb returns `None` for a query on an unknown status code.
-/
namespace DaliVerif.Props.C16
open DaliVerif DaliVerif.Answer DaliVerif.Routing DaliVerif.Spec.AnswerTable
open DaliVerif.Proofs

/-! ## A. the pure mappings -/

/-- The status and type codes the models compare with are the protocols' own. -/
theorem constants_are_protocol : protocolConstants.all (fun p => p.1 == p.2) = true := by decide

/-- **A response object is of the command's own class**, whatever the gateway
sent: all six drivers build it with `command.response(…)`. -/
theorem typed_by_command (c : CmdInfo) (cls : Nat) (o : Outcome) :
    (∀ msgs n, tridonicAnswer c msgs = .done (.ok (.resp cls o)) n → c.resp = some cls) ∧
    (∀ rep, hassebAnswer c rep = .ok (.resp cls o) → c.resp = some cls) ∧
    (∀ w, lubaAnswer c w = .ok (.resp cls o) → c.resp = some cls) ∧
    (∀ w, sciAnswer c w = .ok (.resp cls o) → c.resp = some cls) ∧
    (∀ v s r p, daliserverUnpack c v s r p = .ok (.resp cls o) → c.resp = some cls) ∧
    (∀ lines, atxAnswer c lines = .ok (.resp cls o) → c.resp = some cls) := by
  refine ⟨?_, ?_, ?_, ?_, ?_, ?_⟩
  · intro msgs n h
    obtain ⟨r', hr⟩ := AnswerTable.triLoop_ok h
    exact AnswerTable.triFinish_resp hr.symm
  · intro rep h; exact AnswerTable.hasseb_typed h
  · intro w h; exact AnswerTable.luba_typed h
  · intro w h; exact AnswerTable.luba_typed h
  · intro v s r p h; exact AnswerTable.daliserver_typed h
  · intro lines h; exact AnswerTable.atx_typed h

/-- **`send` returns `None` exactly when the command expects no answer.**
hasseb: for the three status codes of the protocol (and always `None` for a
non-query). -/
theorem none_iff_no_answer_expected (c : CmdInfo) (a : Answer) :
    (∀ msgs n, tridonicAnswer c msgs = .done (.ok a) n → (a = .none ↔ c.resp = none)) ∧
    (∀ st b, hassebAnswer c (.rep st b) = .ok a → st = 1 ∨ st = 2 ∨ st = 3 →
      (a = .none ↔ c.resp = none)) ∧
    (c.resp = none → ∀ rep, hassebAnswer c rep = .ok .none) ∧
    (∀ w, lubaAnswer c w = .ok a → (a = .none ↔ c.resp = none)) ∧
    (∀ w, sciAnswer c w = .ok a → (a = .none ↔ c.resp = none)) ∧
    (∀ v s r p, daliserverUnpack c v s r p = .ok a → (a = .none ↔ c.resp = none)) ∧
    (∀ lines, atxAnswer c lines = .ok a → (a = .none ↔ c.resp = none)) := by
  refine ⟨?_, ?_, ?_, ?_, ?_, ?_, ?_⟩
  · intro msgs n h
    obtain ⟨r', rfl⟩ := AnswerTable.triLoop_ok h
    exact AnswerTable.triFinish_none_iff c r'
  · intro st b h hst; exact AnswerTable.hasseb_none_iff h hst
  · intro hc rep; exact AnswerTable.hasseb_nonquery c rep hc
  · intro w h; exact AnswerTable.luba_none_iff h
  · intro w h; exact AnswerTable.luba_none_iff h
  · intro v s r p h; exact AnswerTable.daliserver_none_iff h
  · intro lines h; exact AnswerTable.atx_none_iff h

/-- excluded point (hasseb): an unknown status code returns `None` for a query -/
example : hassebAnswer ⟨some 7, false⟩ (.rep 4 0) = .ok .none := by decide

/-- ATX hat, non-query: a `J…` or `X…` line from the hat does not leak into the result -/
example : atxAnswer ⟨none, false⟩ [.j 0 (some 5)] = .ok .none ∧
    atxAnswer ⟨none, false⟩ [.x] = .ok .none := by decide

/-- **Tridonic status table**: for every command, frame width and bus outcome
the loop run on the protocol's reports returns normally, the result is the one
the property asks for, and every report has been consumed. -/
theorem tridonic_table (c : CmdInfo) (b24 : Bool) (bus : Bus)
    (hb : ∀ b, bus = .value b → b < 256) :
    ∃ a n, tridonicAnswer c (tridonicReports b24 c.twice bus) = .done (.ok a) n ∧
      conforms .tridonic c bus a = true ∧ n = (tridonicReports b24 c.twice bus).length :=
  AnswerTable.tridonic_table c b24 bus hb

/-- **hasseb status table** (a non-query gets `None`: `conforms` for `c.resp = none`). -/
theorem hasseb_table (c : CmdInfo) (bus : Bus) (junk : Nat)
    (hb : ∀ b, bus = .value b → b < 256) (hj : junk < 256) :
    ∃ a, hassebAnswer c (hassebReport bus junk) = .ok a ∧ conforms .hasseb c bus a = true :=
  AnswerTable.hasseb_table c bus junk hb hj

/-- **daliserver status table.** -/
theorem daliserver_table (c : CmdInfo) (bus : Bus) (junk : Nat) :
    let (v, s, r, p) := daliserverReply bus junk
    ∃ a, daliserverUnpack c v s r p = .ok a ∧ conforms .daliserver c bus a = true :=
  AnswerTable.daliserver_table c bus junk

/-- **LUBA status table** (a garbled answer is only logged: the caller sees silence). -/
theorem luba_table (c : CmdInfo) (bus : Bus) (hb : ∀ b, bus = .value b → b < 256) :
    ∃ a, lubaAnswer c (serialWait bus) = .ok a ∧ conforms .luba c bus a = true :=
  AnswerTable.luba_table c bus hb

/-- **SCI status table.** -/
theorem sci_table (c : CmdInfo) (bus : Bus) (hb : ∀ b, bus = .value b → b < 256) :
    ∃ a, sciAnswer c (serialWait bus) = .ok a ∧ conforms .sci c bus a = true :=
  AnswerTable.sci_table c bus hb

/-- **ATX hat status table.** -/
theorem atx_table (c : CmdInfo) (bus : Bus) (hb : ∀ b, bus = .value b → b < 256) :
    ∃ a, atxAnswer c (atxLines c.twice bus) = .ok a ∧ conforms .atx c bus a = true :=
  AnswerTable.atx_table c bus hb

/-- a report type the Tridonic loop does not react to -/
def Ignorable (t f3 : Nat) : Prop :=
  t ≠ 0x71 ∧ t ≠ 0x72 ∧ t ≠ 0x73 ∧ t ≠ 0x76 ∧ ¬ (t = 0x77 ∧ f3 = 3)

/-- **The Tridonic loop ignores reports of unknown type**: inserting one
anywhere in the message list changes neither the answer nor whether the loop
is still waiting; it is counted as consumed iff the loop reaches it. -/
theorem tri_ignores_unknown (c : CmdInfo) (pre post : List TMsg) (t f0 f1 f2 f3 : Nat)
    (h : Ignorable t f3) :
    tridonicAnswer c (pre ++ .rep t f0 f1 f2 f3 :: post) =
      match tridonicAnswer c (pre ++ post) with
      | .blocked => .blocked
      | .done a k => .done a (if k ≤ pre.length then k else k + 1) := by
  unfold tridonicAnswer
  rw [AnswerTable.triLoop_insert c _ _ 0 pre post f0 f1 f2 h]
  cases triLoop c (if c.twice = true then 2 else 1) TResp.unset 0 (pre ++ post) <;>
    simp [AnswerTable.withInserted]

/-! ## B. routing -/

/-- The sequence numbers stay in `1 … 255`. -/
theorem seqAt_range (s0 k : Nat) (h1 : 1 ≤ s0) (h2 : s0 ≤ 255) :
    1 ≤ seqAt s0 k ∧ seqAt s0 k ≤ 255 := Routing.seqAt_range s0 k h1 h2

/-- Closed form of the generator `_seqnum`. -/
theorem seqAt_closed (s0 k : Nat) (h1 : 1 ≤ s0) (h2 : s0 ≤ 255) :
    seqAt s0 k = (s0 - 1 + k) % 255 + 1 := Routing.seqAt_closed s0 k h1 h2

/-- Two draws give the same number exactly when they are a multiple of 255 apart. -/
theorem seqAt_eq_iff (s0 i j : Nat) (h1 : 1 ≤ s0) (h2 : s0 ≤ 255) :
    seqAt s0 i = seqAt s0 j ↔ i % 255 = j % 255 := Routing.seqAt_eq_iff s0 i j h1 h2

/-- the gateway's part of the contract: a report is about a command that has
been written, and it arrives before 255 further numbers have been drawn -/
def Timely (t : Tri) : TriEv → Prop
  | .deliver about _ => about ∈ t.written ∧ t.next ≤ about + 255
  | _ => True

/-- states of the Tridonic driver reachable with a timely gateway -/
inductive Reach (s0 : Nat) : Tri → Prop
  | init : Reach s0 (Tri.init s0)
  | step {t : Tri} {e : TriEv} : Reach s0 t → Timely t e → Reach s0 (t.step e).1

/-- **No caller receives another caller's answer** (Tridonic): every message in
an outstanding command's list is about that very command, and two outstanding
commands never share a sequence number — also across wrap-around. -/
theorem routing_tridonic (s0 : Nat) (t : Tri) (h1 : 1 ≤ s0) (h2 : s0 ≤ 255) (hr : Reach s0 t) :
    (∀ e ∈ t.out, ∀ m ∈ e.msgs, m.about = e.idx) ∧
    (∀ e₁ ∈ t.out, ∀ e₂ ∈ t.out, e₁.seq = e₂.seq → e₁.idx = e₂.idx) := by
  apply Routing.triInv_routing (s0 := s0)
  induction hr with
  | init => exact Routing.triInv_init s0
  | step _ ht ih =>
    refine Routing.triInv_step h1 h2 ih _ ?_
    intro about m he
    subst he
    exact ht

/-- reachable states of the hasseb slot -/
inductive SReach : Slot → Prop
  | init : SReach Slot.init
  | step {s : Slot} (e : SlotEv) : SReach s → SReach (s.step e).1

/-- **hasseb**: the report a task reads was stored after that task's own write
(and `clear()`); a stale report left by an earlier command is never taken. -/
theorem routing_slot (s s' : Slot) (t t₁ τ : Nat) (r : HRep) (hr : SReach s)
    (h : s.step (.wake t) = (s', some (t₁, τ, r))) :
    t₁ = t ∧ ∃ w, s.holder = some (t, w) ∧ w < τ := by
  have inv : Routing.SlotInv s := by
    clear h
    induction hr with
    | init => exact Routing.slotInv_init
    | step e _ ih => exact Routing.slotInv_step ih e
  exact Routing.slotInv_wake inv h

/-- reachable states of the LUBA / SCI answer queue (repaired code) -/
inductive QReach : Que → Prop
  | init : QReach Que.init
  | step {q : Que} (e : QueEv) : QReach q → QReach (q.step e).1

/-- **LUBA / SCI**: the byte a task takes from the answer queue was queued
after that task's own flush. -/
theorem routing_queue (q q' : Que) (t t₁ τ b : Nat) (hr : QReach q)
    (h : q.step (.take t) = (q', some (t₁, some (τ, b)))) :
    t₁ = t ∧ ∃ w, q.holder = some (t, w) ∧ w < τ := by
  have inv : Routing.QueInv q := by
    clear h
    induction hr with
    | init => exact Routing.queInv_init
    | step e _ ih => exact Routing.queInv_step ih e
  exact Routing.queInv_take inv h

/-- the code before the repair (discard only the head of the queue) violates it:
the task that flushed at time 2 is handed a byte queued at time 2, before its
flush — a stale answer -/
example :
    let q := [QueEv.rx 5, .rx 6, .flush 1].foldl (fun q e => (Que.stepWith false q e).1) Que.init
    ∃ w τ b, q.holder = some (1, w) ∧
      (Que.stepWith false q (.take 1)).2 = some (1, some (τ, b)) ∧ τ ≤ w :=
  ⟨2, 2, 6, by decide⟩

/-- the same history with the repaired flush: nothing stale to take -/
example :
    let q := [QueEv.rx 5, .rx 6, .flush 1].foldl (fun q e => (Que.step q e).1) Que.init
    (Que.step q (.take 1)).2 = none := by decide

/-- **LUBA / SCI, the other direction — the caller's own answer is not lost**:
once a task has flushed and written (nobody else holds the transaction lock),
whatever the receiver queues afterwards, in however many `data_received` calls
and before the task runs again, the task takes the FIRST byte queued after its
flush — the value the gateway reported for its command. -/
theorem routing_queue_complete (q : Que) (t b : Nat) (bs : List Nat) (hn : q.holder = none) :
    ∃ τ q', ((b :: bs).foldl (fun q x => (q.step (.rx x)).1) (q.step (.flush t)).1).step (.take t)
      = (q', some (t, some (τ, b))) ∧ q.clock < τ :=
  Routing.que_complete q t b bs hn

/-- a flush placed AFTER the transmission has been confirmed (the answer may
already have been queued by then — confirmation and answer in one serial read)
throws the caller's own answer away: nothing left to take -/
example :
    let q := [QueEv.rx 0x84, .flush 1].foldl (fun q e => (Que.step q e).1) Que.init
    (Que.step q (.take 1)).2 = none ∧ (Que.step q (.giveUp 1)).2 = some (1, none) := by decide

/-- reachable states of the ATX hat's port: the exchange of one `send` is
bracketed by the lock (`Hat.step` = `Hat.stepWith true`) -/
inductive HReach : Hat → Prop
  | init : HReach Hat.init
  | step {h h' : Hat} {o : Option (Nat × Nat)} (e : HatEv) : HReach h → h.step e = some (h', o) → HReach h'

/-- **ATX hat, several threads on one driver object**: every reply line a
thread reads answers a frame that this very thread transmitted — the lines
carry no identification, the lock held from the write until the reply has been
read is what pairs them. -/
theorem routing_hat (h h' : Hat) (t t₁ l : Nat) (hr : HReach h)
    (hs : h.step (.read t) = some (h', some (t₁, l))) : t₁ = t ∧ l = t := by
  have inv : Routing.HatInv h := by
    clear hs
    induction hr with
    | init => exact Routing.hatInv_init
    | step e _ hs ih => exact Routing.hatInv_step ih e hs
  exact Routing.hatInv_read inv hs

/-- … and whenever the lock is free no reply line is pending. -/
theorem hat_idle_clean (h : Hat) (hr : HReach h) (hn : h.holder = none) : h.lines = [] := by
  have inv : Routing.HatInv h := by
    clear hn
    induction hr with
    | init => exact Routing.hatInv_init
    | step e _ hs ih => exact Routing.hatInv_step ih e hs
  cases hl : h.lines with
  | nil => rfl
  | cons l r => have := inv.own l (by rw [hl]; simp); rw [hn] at this; cases this

/-- a lock that brackets the write only (`stepWith false`): thread 2 transmits
while thread 1's reply is pending and reads thread 1's line -/
example :
    let run := fun (h : Option Hat) (e : HatEv) => h.bind (fun h => (Hat.stepWith false h e).map (·.1))
    let h := [HatEv.acquire 1, .write 1 1, .release 1, .acquire 2, .write 2 1].foldl run (some Hat.init)
    (h.bind (fun h => Hat.stepWith false h (.read 2))).map (·.2) = some (some (2, 1)) := by decide

/-- the same schedule is not a run of the code: thread 1 cannot leave the lock with its reply unread -/
example :
    (([HatEv.acquire 1, .write 1 1].foldl
        (fun (h : Option Hat) e => h.bind (fun h => (Hat.step h e).map (·.1))) (some Hat.init)).bind
      (fun h => Hat.step h (.release 1))) = none := by decide

/-! ### non-vacuity -/

example : tridonicAnswer ⟨some 7, false⟩ [.rep 0x73 0 0 0 0, .rep 0x72 0 0 0 0x84]
    = .done (.ok (.resp 7 (.value 0x84))) 2 := by decide
example : tridonicAnswer ⟨some 7, true⟩ [.rep 0x73 0 0 0 0, .rep 0x73 0 0 0 0, .rep 0x77 0 0 0 3]
    = .done (.ok (.resp 7 (.framing 255))) 3 := by decide
example : tridonicAnswer ⟨none, false⟩ [.rep 0x73 0 0 0 0, .rep 0x71 0 0 0 0] = .done (.ok .none) 2 := by
  decide
/-- a reachable Tridonic state with a delivered message, after a wrap of the sequence numbers -/
example : Reach 255 ((Tri.init 255).run [.alloc, .alloc, .deliver 1 (.rep 0x71 0 0 0 0)]) :=
  .step (.step (.step .init trivial) trivial) (by simp only [Timely]; decide)
example : ((Tri.init 255).run [.alloc, .alloc, .deliver 1 (.rep 0x71 0 0 0 0)]).out
    = [⟨255, 0, []⟩, ⟨1, 1, [⟨1, .rep 0x71 0 0 0 0⟩]⟩] := by decide
example : (([SlotEv.write 1, .report (.rep 2 9)].foldl (fun s e => (Slot.step s e).1) Slot.init).step
    (.wake 1)).2 = some (1, 2, .rep 2 9) := by decide
/-- a reachable hat state with a pending line, read by the thread that caused it -/
example : HReach ⟨[1], some 1, 1⟩ ∧ Hat.step ⟨[1], some 1, 1⟩ (.read 1) = some (⟨[], some 1, 0⟩, some (1, 1)) :=
  ⟨.step (.write 1 1) (.step (.acquire 1) .init rfl) rfl, rfl⟩

end DaliVerif.Props.C16
