import DaliVerif.Drivers.RespDrv
def main : IO Unit := DaliVerif.Proto.loop DaliVerif.RespDrv.handle
