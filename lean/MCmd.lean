import DaliVerif.Drivers.CmdDrv
def main : IO Unit := DaliVerif.Proto.loop DaliVerif.CmdDrv.handle
