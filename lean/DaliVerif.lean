import DaliVerif.Model.Py
import DaliVerif.Model.Frame
