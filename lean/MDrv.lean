import DaliVerif.Drivers.DrvDrv
def main : IO Unit := DaliVerif.DrvDrv.loop
