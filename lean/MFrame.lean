import DaliVerif.Drivers.FrameDrv
def main : IO Unit := DaliVerif.Proto.loop DaliVerif.FrameDrv.handle
