import DaliVerif.Drivers.MemSeqDrv
def main : IO Unit := DaliVerif.MemSeqDrv.main
