/-! stub: replaced by the owner of the m_memseq driver (see tools/AGENT_GUIDE.md) -/
def main : IO Unit := IO.println "bad-op"
