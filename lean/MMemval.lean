/-! stub: replaced by the owner of the m_memval driver (see tools/AGENT_GUIDE.md) -/
def main : IO Unit := IO.println "bad-op"
