import DaliVerif.Drivers.MemValDrv
def main : IO Unit := DaliVerif.Proto.loop DaliVerif.MemValDrv.handle
