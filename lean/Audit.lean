import Lean
import DaliVerif.Props.C05
open Lean Elab Command

#eval show CommandElabM Unit from do
  let env ← getEnv
  let modName := `DaliVerif.Props.C05
  let some idx := env.getModuleIdx? modName | throwError "module not found"
  let mut n := 0
  for (c, info) in env.constants.map₁.toList do
    if env.getModuleIdxFor? c != some idx then continue
    match info with
    | .thmInfo _ =>
      if c.isInternalDetail then continue
      let axs ← liftCoreM (collectAxioms c)
      let axs := axs.toList.map (fun a => "\"" ++ a.toString ++ "\"")
      IO.println s!"AUDIT \{\"theorem\": \"{c}\", \"axioms\": [{", ".intercalate axs}]}"
      n := n + 1
    | _ => pure ()
  IO.println s!"AUDIT \{\"count\": {n}}"
