import DaliVerif.Drivers.RxDrv
def main : IO Unit := DaliVerif.RxDrv.loopFlush DaliVerif.RxDrv.handle
