import DaliVerif.Drivers.RxDrv
def main : IO Unit := DaliVerif.Proto.loop DaliVerif.RxDrv.handle
