import DaliVerif.Drivers.WireDrv
def main : IO Unit := DaliVerif.Proto.loop DaliVerif.WireDrv.handle
