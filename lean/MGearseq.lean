import DaliVerif.Drivers.GearSeqDrv
def main : IO Unit := DaliVerif.GearSeqDrv.loop
