/-! stub: replaced by the owner of the m_gearseq driver (see tools/AGENT_GUIDE.md) -/
def main : IO Unit := IO.println "bad-op"
