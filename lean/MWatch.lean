import DaliVerif.Drivers.WatchDrv
def main : IO Unit := DaliVerif.Proto.loop DaliVerif.WatchDrv.handle
