import DaliVerif.Drivers.WatchDrv
/-- same loop as `Proto.loop`, but the answer is flushed after every line so
that the harness can talk to the driver in lock step (trace mode) -/
partial def loopFlush (handle : List String → String) : IO Unit := do
  let stdin ← IO.getStdin
  let stdout ← IO.getStdout
  let rec go : IO Unit := do
    let line ← stdin.getLine
    if line.isEmpty then return ()
    let toks := (line.trimAsciiEnd.copy.splitOn " ").filter (· ≠ "")
    stdout.putStrLn (handle toks)
    stdout.flush
    go
  go

def main : IO Unit := loopFlush DaliVerif.WatchDrv.handle
