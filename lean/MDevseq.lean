import DaliVerif.Drivers.DevSeqDrv
def main : IO Unit := DaliVerif.DevSeqDrv.main
